#pragma once
#include <map>
#include <set>
#include <string>
#include <vector>
struct RngDev {
  int variant = 0;                                        // which compiled configuration of util-get-random-bytes.c
  std::map<std::string, std::vector<std::string>> script[8]; // per task, per source: outcomes of its next calls in this op
  std::map<std::string, long> calls;
  std::set<std::string> failed_sources;                   // sources that have ever failed in this process (may be memoised as broken)
  std::map<int, int> open_fds;                            // simulated descriptor -> task that opened it
  int next_fd = 0;
  long full_draws = 0;
  unsigned long partials = 0;
};
extern RngDev g_rngdev;
