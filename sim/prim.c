/* Uniform wrappers around the library's digest/MAC/KDF primitives (C09
   clause 6).  Compiled as C with the library's own headers, so a change of a
   context layout is followed automatically.  */
#include "crypt-port.h"
#include "alg-md4.h"
#include "alg-md5.h"
#include "alg-sha1.h"
#include "alg-sha256.h"
#include "alg-sha512.h"
#include "alg-hmac-sha1.h"
#include "alg-gost3411-2012-hmac.h"

/* returns digest length, 0 if the algorithm is not compiled in.
   ctxbuf: caller storage (>= 2048 bytes, 64-aligned) used as the context;
   *ctx_used: how many bytes of it were the context (0 = no exposed context) */
int prim_run (int alg, const uint8_t *msg, size_t len, const uint8_t *key, size_t klen,
              void *ctxbuf, size_t *ctx_used, uint8_t *out);
const char *prim_name (int alg);
/* workload helper: spell a yescrypt setting with arbitrary parameters through the tree's own encoder */
int gen_yescrypt_setting (unsigned flags, unsigned long long N, unsigned r, unsigned p, unsigned t,
                          const unsigned char *salt, size_t saltlen, char *out, size_t outlen);

const char *
prim_name (int alg)
{
  static const char *n[] = { "MD4", "MD5", "SHA1", "SHA256", "SHA512", "GOST-hash256",
                             "HMAC-SHA1", "HMAC_SHA256_Buf", "PBKDF2_SHA256", "gost_hmac256",
                             "HMAC_SHA256-ctx", "SHA256_Buf" };
  return alg >= 0 && alg < 12 ? n[alg] : "?";
}

int
prim_run (int alg, const uint8_t *msg, size_t len, const uint8_t *key, size_t klen,
          void *ctxbuf, size_t *ctx_used, uint8_t *out)
{
  *ctx_used = 0;
  switch (alg)
    {
#if INCLUDE_nt
    case 0:
      { MD4_CTX *c = ctxbuf; *ctx_used = sizeof *c; MD4_Init (c); MD4_Update (c, msg, len); MD4_Final (out, c); return 16; }
#endif
#if INCLUDE_md5crypt || INCLUDE_sunmd5
    case 1:
      { MD5_CTX *c = ctxbuf; *ctx_used = sizeof *c; MD5_Init (c); MD5_Update (c, msg, len); MD5_Final (out, c); return 16; }
#endif
#if INCLUDE_sha1crypt
    case 2:
      { struct sha1_ctx *c = ctxbuf; *ctx_used = sizeof *c; sha1_init_ctx (c); sha1_process_bytes (msg, c, len); sha1_finish_ctx (c, out); return 20; }
    case 6:
      hmac_sha1_process_data (msg, len, key, klen, out); return 20;
#endif
#if INCLUDE_sha256crypt || INCLUDE_yescrypt || INCLUDE_scrypt || INCLUDE_gost_yescrypt
    case 3:
      { SHA256_CTX *c = ctxbuf; *ctx_used = sizeof *c; SHA256_Init (c); SHA256_Update (c, msg, len); SHA256_Final (out, c); return 32; }
#endif
#if INCLUDE_yescrypt || INCLUDE_scrypt || INCLUDE_gost_yescrypt
    case 11:
      SHA256_Buf (msg, len, out); return 32;
    case 7:
      HMAC_SHA256_Buf (key, klen, msg, len, out); return 32;
    case 8:
      PBKDF2_SHA256 (key, klen, msg, len, 2, out, 48); return 48;
    case 10:
      { HMAC_SHA256_CTX *c = ctxbuf; *ctx_used = sizeof *c; HMAC_SHA256_Init (c, key, klen); HMAC_SHA256_Update (c, msg, len); HMAC_SHA256_Final (out, c); return 32; }
#endif
#if INCLUDE_sha512crypt
    case 4:
      { SHA512_CTX *c = ctxbuf; *ctx_used = sizeof *c; SHA512_Init (c); SHA512_Update (c, msg, len); SHA512_Final (out, c); return 64; }
#endif
#if INCLUDE_gost_yescrypt
    case 5:
      { GOST34112012Context *c = ctxbuf; *ctx_used = sizeof *c; gost_hash256 (msg, len, out, c); return 32; }
    case 9:
      { gost_hmac_256_t *c = ctxbuf; *ctx_used = sizeof *c; gost_hmac256 (key, klen, msg, len, out, c); return 32; }
#endif
    default:
      return 0;
    }
}

#if INCLUDE_yescrypt || INCLUDE_gost_yescrypt || INCLUDE_scrypt
#include "alg-yescrypt.h"
#endif
int
gen_yescrypt_setting (unsigned flags, unsigned long long N, unsigned r, unsigned p, unsigned t,
                      const unsigned char *salt, size_t saltlen, char *out, size_t outlen)
{
#if INCLUDE_yescrypt || INCLUDE_gost_yescrypt
  yescrypt_params_t params = { .flags = flags, .N = N, .r = r, .p = p, .t = t, .g = 0, .NROM = 0 };
  return yescrypt_encode_params_r (&params, salt, saltlen, (uint8_t *) out, outlen) ? 1 : 0;
#else
  (void) flags; (void) N; (void) r; (void) p; (void) t; (void) salt; (void) saltlen; (void) out; (void) outlen;
  return 0;
#endif
}
