#pragma once
#include <map>
#include <set>
#include <string>
#include <vector>
struct RngDev {
  int variant = 0;                                        // which compiled configuration of util-get-random-bytes.c
  std::map<std::string, std::vector<std::string>> script[8]; // per task, per source: outcomes of its next calls in this op
  std::map<std::string, int> pinned_served[8];             // per task, per source: consecutive pinned outcomes served in the current op
  std::map<std::string, long> calls;
  std::set<std::string> failed_sources;                   // sources that have ever failed in this process (may be memoised as broken)
  std::map<int, int> open_fds;                            // simulated descriptor -> task that opened it
  int next_fd = 0;
  int fd_base = 1000;                                     // lowest descriptor number open() hands out in this run
  long full_draws = 0;
  unsigned long partials = 0;
  int fired_in_op[8] = {0};
  int grb_calls[8] = {0}, grb_ok[8] = {0};                // get_random_bytes calls of the task's current op, and how many reported success                               // faults that actually fired in the task's current op
};
extern RngDev g_rngdev;
