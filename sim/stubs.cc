// Stubs for libc functions the current tree does not call.  If a change to
// the library starts calling one of them, the redirected symbol lands here:
//  * MT-Unsafe functions (POSIX): recorded; two tasks reaching one in a run is
//    a race on libc's hidden static state (C08 oracle 4)
//  * ordinary nondeterminism sources: replaced by fixed values and logged, so
//    that replay stays exact.
#include <cstdarg>
#include <cstdlib>
#include <cstring>
#include <ctime>
#include <clocale>
#include <grp.h>
#include <pwd.h>
#include <sys/time.h>
#include <unistd.h>
#include "sim.hh"

static unsigned g_reached_mask[64];
static const char *g_reached_name[64];
static int g_nreached;
void deny_reset() { g_nreached = 0; }
void deny_reached(const char *name) {
  int t = cur_task();
  int idx = -1;
  for (int i = 0; i < g_nreached; i++) if (!strcmp(g_reached_name[i], name)) idx = i;
  if (idx < 0 && g_nreached < 64) { idx = g_nreached++; g_reached_name[idx] = name; g_reached_mask[idx] = 0; }
  if (idx < 0) return;
  g_reached_mask[idx] |= 1u << t;
  ev(vfmt("libc-mt-unsafe t%d %s", t, name));
  if (g_reached_mask[idx] & (g_reached_mask[idx] - 1))
    violation(nullptr, "race-libc-static", t, cur_op(t), vfmt("library code calls %s(), which POSIX documents as MT-Unsafe, from more than one thread", name));
}
extern "C" void deny_reached_c(const char *name) { deny_reached(name); }
long long g_sim_clock = 1700000000;
static void nondet(const char *name) { ev(vfmt("nondeterminism-source %s stubbed", name)); }

extern "C" {
char *sim_strtok(char *s, const char *d) { deny_reached("strtok"); return strtok(s, d); }
int sim_rand(void) { deny_reached("rand"); return 4; }
void sim_srand(unsigned) { deny_reached("srand"); }
long sim_random(void) { deny_reached("random"); return 4; }
void sim_srandom(unsigned) { deny_reached("srandom"); }
char *sim_strerror(int e) { deny_reached("strerror"); return strerror(e); }
char *sim_asctime(const struct tm *t) { deny_reached("asctime"); return asctime(t); }
char *sim_ctime(const time_t *t) { deny_reached("ctime"); return ctime(t); }
struct tm *sim_gmtime(const time_t *t) { deny_reached("gmtime"); return gmtime(t); }
struct tm *sim_localtime(const time_t *t) { deny_reached("localtime"); return localtime(t); }
struct passwd *sim_getpwnam(const char *) { deny_reached("getpwnam"); return nullptr; }
struct passwd *sim_getpwuid(uid_t) { deny_reached("getpwuid"); return nullptr; }
struct group *sim_getgrnam(const char *) { deny_reached("getgrnam"); return nullptr; }
struct group *sim_getgrgid(gid_t) { deny_reached("getgrgid"); return nullptr; }
char *sim_setlocale(int, const char *) { deny_reached("setlocale"); return (char *)"C"; }
char *sim_ttyname(int) { deny_reached("ttyname"); return nullptr; }
char *sim_getenv(const char *) { nondet("getenv"); return nullptr; }
// The simulated clock: the only clock library code can read.  It stands still during a call and is moved by the plan
// between calls (seconds forward, a jump of hours or months, a step backwards): see "clock" in the plan language.
time_t sim_time(time_t *t) { nondet("time"); time_t v = (time_t)g_sim_clock; if (t) *t = v; return v; }
int sim_clock_gettime(clockid_t, struct timespec *ts) { nondet("clock_gettime"); ts->tv_sec = (time_t)g_sim_clock; ts->tv_nsec = 0; return 0; }
int sim_gettimeofday(struct timeval *tv, void *) { nondet("gettimeofday"); tv->tv_sec = (time_t)g_sim_clock; tv->tv_usec = 0; return 0; }
pid_t sim_getpid(void) { nondet("getpid"); return 4242; }
}
