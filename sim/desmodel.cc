// Independent bit-level DES straight from the tables of FIPS 46-3.
// Shares no code or table with lib/alg-des*.c.  Self-checked at start-up
// against the standard's worked example and against libgcrypt.
#include <cstdio>
#include <cstdlib>
#include <cstring>
#include <gcrypt.h>
#include <unistd.h>
#include "sim.hh"

static const int IP[64] = {58, 50, 42, 34, 26, 18, 10, 2, 60, 52, 44, 36, 28, 20, 12, 4, 62, 54, 46, 38, 30, 22,
                           14, 6,  64, 56, 48, 40, 32, 24, 16, 8, 57, 49, 41, 33, 25, 17, 9,  1, 59, 51, 43, 35,
                           27, 19, 11, 3,  61, 53, 45, 37, 29, 21, 13, 5, 63, 55, 47, 39, 31, 23, 15, 7};
static const int FP[64] = {40, 8,  48, 16, 56, 24, 64, 32, 39, 7,  47, 15, 55, 23, 63, 31, 38, 6,  46, 14, 54, 22,
                           62, 30, 37, 5,  45, 13, 53, 21, 61, 29, 36, 4,  44, 12, 52, 20, 60, 28, 35, 3,  43, 11,
                           51, 19, 59, 27, 34, 2,  42, 10, 50, 18, 58, 26, 33, 1,  41, 9,  49, 17, 57, 25};
static const int E[48] = {32, 1,  2,  3,  4,  5,  4,  5,  6,  7,  8,  9,  8,  9,  10, 11, 12, 13, 12, 13, 14, 15, 16, 17,
                          16, 17, 18, 19, 20, 21, 20, 21, 22, 23, 24, 25, 24, 25, 26, 27, 28, 29, 28, 29, 30, 31, 32, 1};
static const int Pp[32] = {16, 7, 20, 21, 29, 12, 28, 17, 1,  15, 23, 26, 5,  18, 31, 10,
                           2,  8, 24, 14, 32, 27, 3,  9,  19, 13, 30, 6,  22, 11, 4,  25};
static const int PC1[56] = {57, 49, 41, 33, 25, 17, 9,  1,  58, 50, 42, 34, 26, 18, 10, 2,  59, 51, 43,
                            35, 27, 19, 11, 3,  60, 52, 44, 36, 63, 55, 47, 39, 31, 23, 15, 7,  62, 54,
                            46, 38, 30, 22, 14, 6,  61, 53, 45, 37, 29, 21, 13, 5,  28, 20, 12, 4};
static const int PC2[48] = {14, 17, 11, 24, 1,  5,  3,  28, 15, 6,  21, 10, 23, 19, 12, 4,
                            26, 8,  16, 7,  27, 20, 13, 2,  41, 52, 31, 37, 47, 55, 30, 40,
                            51, 45, 33, 48, 44, 49, 39, 56, 34, 53, 46, 42, 50, 36, 29, 32};
static const int SHIFTS[16] = {1, 1, 2, 2, 2, 2, 2, 2, 1, 2, 2, 2, 2, 2, 2, 1};
static const int S[8][64] = {
    {14, 4,  13, 1, 2,  15, 11, 8,  3,  10, 6,  12, 5,  9,  0, 7,  0,  15, 7,  4,  14, 2,
     13, 1,  10, 6, 12, 11, 9,  5,  3,  8,  4,  1,  14, 8,  13, 6, 2,  11, 15, 12, 9,  7,
     3,  10, 5,  0, 15, 12, 8,  2,  4,  9,  1,  7,  5,  11, 3,  14, 10, 0,  6,  13},
    {15, 1,  8,  14, 6,  11, 3,  4,  9,  7, 2,  13, 12, 0, 5,  10, 3,  13, 4, 7,  15, 2,
     8,  14, 12, 0,  1,  10, 6,  9,  11, 5, 0,  14, 7,  11, 10, 4, 13, 1,  5, 8,  12, 6,
     9,  3,  2,  15, 13, 8,  10, 1,  3,  15, 4, 2,  11, 6,  7,  12, 0,  5,  14, 9},
    {10, 0,  9,  14, 6, 3,  15, 5,  1,  13, 12, 7,  11, 4,  2,  8, 13, 7,  0,  9,  3, 4,
     6,  10, 2,  8,  5, 14, 12, 11, 15, 1,  13, 6,  4,  9,  8,  15, 3, 0,  11, 1,  2, 12,
     5,  10, 14, 7,  1, 10, 13, 0,  6,  9,  8,  7,  4,  15, 14, 3,  11, 5,  2,  12},
    {7,  13, 14, 3, 0,  6,  9,  10, 1,  2, 8, 5,  11, 12, 4,  15, 13, 8,  11, 5,  6,  15,
     0,  3,  4,  7, 2,  12, 1,  10, 14, 9, 10, 6, 9,  0,  12, 11, 7,  13, 15, 1,  3,  14,
     5,  2,  8,  4, 3,  15, 0,  6,  10, 1,  13, 8, 9,  4,  5,  11, 12, 7,  2,  14},
    {2,  12, 4,  1,  7,  10, 11, 6, 8,  5,  3,  15, 13, 0,  14, 9,  14, 11, 2,  12, 4, 7,
     13, 1,  5,  0,  15, 10, 3,  9, 8,  6,  4,  2,  1,  11, 10, 13, 7,  8,  15, 9,  12, 5,
     6,  3,  0,  14, 11, 8,  12, 7, 1,  14, 2,  13, 6,  15, 0,  9,  10, 4,  5,  3},
    {12, 1,  10, 15, 9, 2,  6,  8,  0,  13, 3,  4,  14, 7,  5,  11, 10, 15, 4,  2,  7,  12,
     9,  5,  6,  1,  13, 14, 0,  11, 3,  8,  9,  14, 15, 5,  2,  8,  12, 3,  7,  0,  4,  10,
     1,  13, 11, 6,  4, 3,  2,  12, 9,  5,  15, 10, 11, 14, 1,  7,  6,  0,  8,  13},
    {4,  11, 2,  14, 15, 0, 8,  13, 3,  12, 9, 7,  5,  10, 6,  1,  13, 0,  11, 7,  4,  9,
     1,  10, 14, 3,  5,  12, 2,  15, 8,  6,  1, 4,  11, 13, 12, 3,  7,  14, 10, 15, 6,  8,
     0,  5,  9,  2,  6,  11, 13, 8, 1,  4,  10, 7, 9,  5,  0,  15, 14, 2,  3,  12},
    {13, 2,  8,  4, 6,  15, 11, 1,  10, 9,  3,  14, 5,  0,  12, 7,  1,  15, 13, 8,  10, 3,
     7,  4,  12, 5, 6,  11, 0,  14, 9,  2,  7,  11, 4,  1,  9,  12, 14, 2,  0,  6,  10, 13,
     15, 3,  5,  8, 2,  1,  14, 7,  4,  10, 8,  13, 15, 12, 9,  0,  3,  5,  6,  11}};

typedef unsigned char bit;
static void to_bits(const unsigned char *in, bit *out, int nbytes) {
  for (int i = 0; i < nbytes; i++)
    for (int j = 0; j < 8; j++) out[i * 8 + j] = (in[i] >> (7 - j)) & 1;
}
static void from_bits(const bit *in, unsigned char *out, int nbytes) {
  for (int i = 0; i < nbytes; i++) {
    unsigned v = 0;
    for (int j = 0; j < 8; j++) v = (v << 1) | in[i * 8 + j];
    out[i] = (unsigned char)v;
  }
}

void des_model_crypt(const unsigned char key[8], const unsigned char in[8], unsigned char out[8], bool decrypt) {
  bit kb[64], cd[56], sub[16][48];
  to_bits(key, kb, 8);
  for (int i = 0; i < 56; i++) cd[i] = kb[PC1[i] - 1];
  for (int r = 0; r < 16; r++) {
    for (int s = 0; s < SHIFTS[r]; s++) {
      bit c0 = cd[0], d0 = cd[28];
      for (int i = 0; i < 27; i++) { cd[i] = cd[i + 1]; cd[28 + i] = cd[28 + i + 1]; }
      cd[27] = c0; cd[55] = d0;
    }
    for (int i = 0; i < 48; i++) sub[r][i] = cd[PC2[i] - 1];
  }
  bit mb[64], lr[64];
  to_bits(in, mb, 8);
  for (int i = 0; i < 64; i++) lr[i] = mb[IP[i] - 1];
  bit *L = lr, *R = lr + 32;
  for (int r = 0; r < 16; r++) {
    const bit *k = sub[decrypt ? 15 - r : r];
    bit er[48], f[32], sp[32];
    for (int i = 0; i < 48; i++) er[i] = R[E[i] - 1] ^ k[i];
    for (int b = 0; b < 8; b++) {
      const bit *x = er + 6 * b;
      int row = (x[0] << 1) | x[5];
      int col = (x[1] << 3) | (x[2] << 2) | (x[3] << 1) | x[4];
      int v = S[b][row * 16 + col];
      for (int j = 0; j < 4; j++) sp[4 * b + j] = (v >> (3 - j)) & 1;
    }
    for (int i = 0; i < 32; i++) f[i] = sp[Pp[i] - 1];
    bit nl[32];
    memcpy(nl, R, 32);
    for (int i = 0; i < 32; i++) R[i] = L[i] ^ f[i];
    memcpy(L, nl, 32);
  }
  bit pre[64], ob[64];
  memcpy(pre, R, 32); memcpy(pre + 32, L, 32);  // final swap
  for (int i = 0; i < 64; i++) ob[i] = pre[FP[i] - 1];
  from_bits(ob, out, 8);
}

void des_model_selftest() {
  static const unsigned char K[8] = {0x13, 0x34, 0x57, 0x79, 0x9B, 0xBC, 0xDF, 0xF1};
  static const unsigned char Pt[8] = {0x01, 0x23, 0x45, 0x67, 0x89, 0xAB, 0xCD, 0xEF};
  static const unsigned char Ct[8] = {0x85, 0xE8, 0x13, 0x54, 0x0F, 0x0A, 0xB4, 0x05};
  unsigned char o[8];
  des_model_crypt(K, Pt, o, false);
  if (memcmp(o, Ct, 8)) { fprintf(stderr, "DES model: worked example mismatch\n"); _exit(2); }
  des_model_crypt(K, Ct, o, true);
  if (memcmp(o, Pt, 8)) { fprintf(stderr, "DES model: decrypt mismatch\n"); _exit(2); }
  gcry_check_version(nullptr);
  gcry_control(GCRYCTL_DISABLE_SECMEM, 0);
  gcry_control(GCRYCTL_INITIALIZATION_FINISHED, 0);
  Rng r(0xDE5, "desmodel");
  for (int i = 0; i < 300; i++) {
    unsigned char k[8], p[8], c1[8], c2[8];
    for (int j = 0; j < 8; j++) { k[j] = (unsigned char)r.next(); p[j] = (unsigned char)r.next(); }
    gcry_cipher_hd_t h;
    if (gcry_cipher_open(&h, GCRY_CIPHER_DES, GCRY_CIPHER_MODE_ECB, 0)) { fprintf(stderr, "gcrypt open failed\n"); _exit(2); }
    gcry_error_t e = gcry_cipher_setkey(h, k, 8);
    if (e && gcry_err_code(e) != GPG_ERR_WEAK_KEY) { fprintf(stderr, "gcrypt setkey failed\n"); _exit(2); }
    gcry_cipher_encrypt(h, c1, 8, p, 8);
    gcry_cipher_close(h);
    des_model_crypt(k, p, c2, false);
    if (memcmp(c1, c2, 8)) { fprintf(stderr, "DES model disagrees with libgcrypt at sample %d\n", i); _exit(2); }
  }
}

// Workload helpers: build keys/blocks with a prescribed internal structure (what the key looks like after PC-1,
// what the block looks like after IP) by inverting the standard's permutations.
void des_key_from_cd(uint32_t c28, uint32_t d28, unsigned parity_noise, unsigned char out[8]) {
  bit kb[64]; for (int i = 0; i < 64; i++) kb[i] = (parity_noise >> (i / 8)) & 1;   // bits PC-1 does not pick (8,16,..) keep the noise
  for (int i = 0; i < 28; i++) { kb[PC1[i] - 1] = (c28 >> (27 - i)) & 1; kb[PC1[28 + i] - 1] = (d28 >> (27 - i)) & 1; }
  from_bits(kb, out, 8);
}
void des_block_from_lr(uint32_t l, uint32_t r, unsigned char out[8]) {
  bit lr[64], mb[64];
  for (int i = 0; i < 32; i++) { lr[i] = (l >> (31 - i)) & 1; lr[32 + i] = (r >> (31 - i)) & 1; }
  for (int i = 0; i < 64; i++) mb[IP[i] - 1] = lr[i];     // IP maps message bit IP[i] to position i
  from_bits(mb, out, 8);
}
