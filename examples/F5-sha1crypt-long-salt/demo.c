/* F5: sha1crypt with a salt longer than the output buffer can hold. */
#include <crypt.h>
#include <stdio.h>
#include <stdlib.h>
#include <string.h>
int main(int argc, char **argv) {
  size_t sl = argc > 1 ? (size_t)atoi(argv[1]) : 400;
  char *st = malloc(sl + 32); strcpy(st, "$sha1$5$"); memset(st + 8, 'a', sl); st[8 + sl] = 0;
  struct crypt_data *d = calloc(1, sizeof *d);
  char *r1 = crypt_r("first passphrase", st, d); char *h1 = r1 ? strdup(r1) : NULL;
  /* what the object holds behind output afterwards */
  size_t nz = 0; for (size_t i = 0; i < sizeof d->internal; i++) nz += d->internal[i] != 0;
  size_t nzr = 0; for (size_t i = 0; i < sizeof d->reserved; i++) nzr += d->reserved[i] != 0;
  size_t wrote_in = 0; for (size_t i = 0; i < sizeof d->input; i++) wrote_in += d->input[i] != 0;
  size_t wrote_set = 0; for (size_t i = 0; i < sizeof d->setting; i++) wrote_set += d->setting[i] != 0;
  memset(d, 0, sizeof *d);
  char *r2 = crypt_r("a completely different passphrase", st, d); char *h2 = r2 ? strdup(r2) : NULL;
  memset(d, 0, sizeof *d); memset(d->setting, 'Z', sizeof d->setting);
  char *r3 = crypt_r("first passphrase", st, d); char *h3 = r3 ? strdup(r3) : NULL;
  printf("salt length %zu\n", sl);
  printf("result 1: %s (len %zu)\n", h1 ? "non-NULL" : "NULL", h1 ? strlen(h1) : 0);
  printf("same result for a different passphrase: %s\n", h1 && h2 ? (!strcmp(h1, h2) ? "YES" : "no") : "n/a");
  printf("same result with other bytes in data->setting: %s\n", h1 && h3 ? (!strcmp(h1, h3) ? "yes" : "NO") : "n/a");
  printf("non-zero bytes left: setting %zu input %zu reserved %zu internal %zu\n", wrote_set, wrote_in, nzr, nz);
  return 0;
}
