// Interfaces between the parts of the simulator (DESIGN.md section 3).
#pragma once
#include <cstddef>
#include <cstdint>
#include <map>
#include <string>
#include <vector>
#include "util.hh"

#define MAX_TASKS 24

// ---------------------------------------------------------------- violations
struct Violation {
  bool set = false;
  std::string prop, cls, msg;
  int task = -1, op = -1;
};
// First violation of a run wins; later ones are counted only.
void violation(const char *prop, const char *cls, int task, int op, const std::string &msg);
bool run_violated();

// ---------------------------------------------------------------- event log
// Every event is folded into the run's trace hash; nothing here may contain
// an address, a clock value or a PRNG draw.
void ev(const std::string &line);
extern bool g_log_events;  // --trace: keep the text of every event

// ---------------------------------------------------------------- reference oracle
struct RefOut {
  bool ok = false;     // true: call succeeded and 'str' is the result
  std::string str;
  int err = 0;         // errno of a failing call
  int ival = 0;        // checksalt
  bool bad = false;    // refsrv trouble (X/T/E) -> machinery failure, never a verdict
  std::string raw;
};
struct RefClient {
  static RefClient &get();
  void start(const std::string &refsrv_path);
  RefOut hash(const Bytes &phrase, const Bytes &setting);
  RefOut gensalt(const Bytes &prefix, unsigned long count, const Bytes &rbytes, int nrbytes, int osize);
  int checksalt(const Bytes &setting);
  RefOut preferred();
  unsigned long queries = 0, forks = 0;
 private:
  RefOut ask(const std::string &line);
  int wfd = -1, rfd = -1, pid = -1;
  std::map<std::string, RefOut> memo;
  std::string rbuf;
};

// ---------------------------------------------------------------- memory layer (memlayer.cc)
enum ReqKind { RQ_MALLOC, RQ_REALLOC, RQ_FREE, RQ_MMAP, RQ_MUNMAP, RQ_SYSCALL };   // RQ_SYSCALL: madvise/mlock/mprotect... - fallible system calls about memory that the current tree does not make
struct MemReq {        // one allocator/mapping request issued by library code
  ReqKind kind;
  size_t size;         // requested size (new size for realloc, length for mmap/munmap)
  bool hugetlb;        // mmap carried MAP_HUGETLB
  bool failed;         // we made it fail (or it really failed)
  bool injected;       // failure injected by the fault plan / environment
  int k;               // position in the op's sequence of fallible requests (1-based), 0 for free()
};
struct Block {
  size_t size;
  int task, op;
  bool is_map;
  bool from_harness;   // allocated by the harness on behalf of the caller (crypt_ra blocks)
  bool release_refused;  // munmap was made to fail: the library did try to release it
  unsigned long serial;
};
struct MemEnv {
  uint64_t fill_seed = 1;   // dirty-heap pattern
  bool realloc_move = true; // always relocate on realloc
  bool hugetlb_ok = false;  // MAP_HUGETLB attempts succeed
  int soft_fault_pct = 0;   // per cent of the memory system calls other than malloc/realloc/mmap/munmap (madvise, mlock, ...) that fail in this run
  size_t map_limit = 0;     // the simulated machine refuses single mappings of this many bytes and more (0: only >= 1 TiB)
};
struct MemLayer {
  static MemLayer &get();
  MemEnv env;
  std::map<uintptr_t, Block> live;          // library-visible live blocks and mappings
  std::vector<MemReq> op_reqs[MAX_TASKS];   // requests of the op currently running per task
  std::vector<int> op_faults[MAX_TASKS];    // k values that must fail in the current op
  int fallible_seen[MAX_TASKS] = {0};
  unsigned long serial = 0, soft_calls = 0;
  // statistics (per process, reset by the engine per run)
  std::map<std::string, unsigned long> stats;

  void begin_run(const MemEnv &e);
  void begin_op(int task, const std::vector<int> &faults, bool hugetlb_ok);
  void end_op(int task);
  // harness-side allocation of caller-owned blocks that the library may realloc/free
  void *h_malloc(size_t n, int task);
  void h_free(void *p);
  const Block *find(const void *p) const;
  size_t live_count(bool maps) const;
};
// called by the memory layer at the instant library-visible memory is released
// (free, munmap, old block of a realloc): engine scans it (C09/C14).
typedef void (*release_hook_t)(int task, const void *p, size_t size, ReqKind how, const Block &b);
extern release_hook_t g_release_hook;

int cur_task();          // id of the running simulated task (0 in single-task builds)
int cur_op(int task);    // index of the op that task is executing

// ---------------------------------------------------------------- entropy device
struct EntropyDraw { int task, op; std::string bytes; const void *buf; bool complete; };   // one delivery of an OS source: the whole request, or (short read) its beginning
struct EntropyDev {
  static EntropyDev &get();
  uint64_t seed = 0;
  unsigned long counter[MAX_TASKS] = {0};
  std::vector<EntropyDraw> draws[MAX_TASKS];  // draws of the current op
  struct Last { const void *buf; size_t n; unsigned char bytes[256]; } last[MAX_TASKS];  // the op's latest draw, as plain data (read without any call right after the library returns)
  void begin_run(uint64_t s);
  void begin_op(int task);
  void fill(int task, void *buf, size_t n);
  void note_partial(int task, const void *buf, size_t n);   // a short delivery that the source itself wrote to buf
};

// ---------------------------------------------------------------- thread runtime (thr_rt.cc; stubs elsewhere)
namespace thr {
void init();
void begin_run(const J &schedule, uint64_t seed, int ntasks);
// register/unregister a region owned by a task (-1: shared read-only, -2: harness/no-access)
void region_add(const void *p, size_t n, int owner, const char *name);
void region_del(const void *p);
void task_start(int task);       // called on the task's own thread before its first op
void task_finish(int task);
void api_boundary(int task, int op, bool enter);
void run_tasks(int ntasks, void (*body)(int task, void *arg), void *arg, size_t stack_size);
J end_run();                     // recorded switches + statistics
extern bool enabled;
void co_yield_point(const char *where);   // uninstrumented engines: a place where a real thread may lose the CPU (no-op in the thread engine and in single-task runs)
}  // namespace thr

// ---------------------------------------------------------------- DES reference model (desmodel.cc)
void des_model_selftest();
// key, in, out: 8 bytes; FIPS 46-3
void des_model_crypt(const unsigned char key[8], const unsigned char in[8], unsigned char out[8], bool decrypt);
void des_key_from_cd(uint32_t c28, uint32_t d28, unsigned parity_noise, unsigned char out[8]);
void des_block_from_lr(uint32_t l, uint32_t r, unsigned char out[8]);

// ---------------------------------------------------------------- generator (gen.cc)
J generate_plan(const std::string &prop, uint64_t seed, const std::string &tier);

extern long long g_sim_clock;   // simulated time (seconds); stubs.cc

// ---------------------------------------------------------------- deny-listed libc calls reached from the library
void deny_reached(const char *name);
