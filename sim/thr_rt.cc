// Scheduling seam and race detector for the V-thr build (DESIGN.md 3.3, 3.4).
//
// The library objects are compiled with clang -fsanitize=thread, which plants
// a call to __tsan_readN/__tsan_writeN before every memory access that is not
// provably thread-local and __tsan_func_entry/exit around every function.  We
// do NOT link the ThreadSanitizer runtime: this file defines those symbols.
// Each call is (a) one logical step and a possible preemption point decided
// by the seeded scheduler and (b) one event for a vector-clock race detector.
// Caller threads are real pthreads; a baton guarantees exactly one runs.
#include <cerrno>
#include <cmath>
#include <cstdarg>
#include <cstdlib>
#include <cstring>
#include <elf.h>
#include <fcntl.h>
#include <link.h>
#include <pthread.h>
#include <semaphore.h>
#include <sys/mman.h>
#include <sys/stat.h>
#include <unistd.h>
#include <algorithm>
#include "engine.hh"

namespace thr { bool enabled = true; }

// ------------------------------------------------------------------ symbols
struct Sym { uintptr_t lo, hi; const char *name; bool func; };
static std::vector<Sym> g_syms;
static std::vector<std::pair<uintptr_t, uintptr_t>> g_ro;   // non-writable mappings: reads can never race
static char *g_strtab_copy;

static int phdr_cb(struct dl_phdr_info *info, size_t, void *data) {
  if (!*(uintptr_t *)data && info->dlpi_name && info->dlpi_name[0] == 0) { *(uintptr_t *)data = info->dlpi_addr ? info->dlpi_addr : 1; }
  return 0;
}
static void load_symbols() {
  uintptr_t base = 0; dl_iterate_phdr(phdr_cb, &base); if (base == 1) base = 0;
  int fd = open("/proc/self/exe", O_RDONLY); if (fd < 0) return;
  struct stat st; fstat(fd, &st);
  void *m = mmap(nullptr, (size_t)st.st_size, PROT_READ, MAP_PRIVATE, fd, 0); close(fd);
  if (m == MAP_FAILED) return;
  const Elf64_Ehdr *eh = (const Elf64_Ehdr *)m;
  const Elf64_Shdr *sh = (const Elf64_Shdr *)((const char *)m + eh->e_shoff);
  for (int i = 0; i < eh->e_shnum; i++) {
    if (sh[i].sh_type != SHT_SYMTAB) continue;
    const Elf64_Sym *sy = (const Elf64_Sym *)((const char *)m + sh[i].sh_offset);
    size_t n = sh[i].sh_size / sizeof(Elf64_Sym);
    const Elf64_Shdr &str = sh[sh[i].sh_link];
    g_strtab_copy = (char *)malloc(str.sh_size); memcpy(g_strtab_copy, (const char *)m + str.sh_offset, str.sh_size);
    for (size_t k = 0; k < n; k++) {
      int ty = ELF64_ST_TYPE(sy[k].st_info);
      if ((ty != STT_FUNC && ty != STT_OBJECT) || !sy[k].st_value) continue;
      uintptr_t lo = base + sy[k].st_value;
      g_syms.push_back(Sym{lo, lo + (sy[k].st_size ? sy[k].st_size : 1), g_strtab_copy + sy[k].st_name, ty == STT_FUNC});
    }
  }
  munmap(m, (size_t)st.st_size);
  std::sort(g_syms.begin(), g_syms.end(), [](const Sym &a, const Sym &b) { return a.lo < b.lo; });
  // non-writable mappings
  FILE *f = fopen("/proc/self/maps", "r");
  if (f) {
    char line[512];
    while (fgets(line, sizeof line, f)) {
      unsigned long lo, hi; char perm[8];
      if (sscanf(line, "%lx-%lx %7s", &lo, &hi, perm) == 3 && perm[1] != 'w' && strstr(line, "simcrypt")) g_ro.emplace_back(lo, hi);
    }
    fclose(f);
  }
}
static const Sym *sym_at(uintptr_t a) {
  size_t lo = 0, hi = g_syms.size();
  while (lo < hi) { size_t mid = (lo + hi) / 2; if (g_syms[mid].lo <= a) lo = mid + 1; else hi = mid; }
  for (size_t k = lo; k-- > 0 && lo - k < 8;) if (a >= g_syms[k].lo && a < g_syms[k].hi) return &g_syms[k];
  return nullptr;
}
static std::string fn_name(const void *pc) {
  const Sym *s = sym_at((uintptr_t)pc);
  return s ? std::string(s->name) : std::string("?");
}

// ------------------------------------------------------------------ tasks
enum TState { T_NEW, T_RUNNABLE, T_BLOCKED, T_DONE };
struct TaskRt {
  pthread_t th;
  sem_t sem;
  TState st = T_NEW;
  std::vector<const void *> stack;      // shadow call stack (function addresses)
  uint32_t vc[MAX_TASKS];
  int op = -1; bool in_api = false;
  const void *blocked_on = nullptr;
  uintptr_t stk_lo = 0, stk_hi = 0;
};
static TaskRt g_t[MAX_TASKS];
static int g_ntasks, g_cur = -1;
static sem_t g_main_sem;
static bool g_active;                   // tasks are running (callbacks do something)

// ------------------------------------------------------------------ schedule
static uint64_t g_step, g_next_decision;
static Rng g_srng;
static bool g_explicit, g_bias;
static std::vector<std::pair<uint64_t, int>> g_explicit_sw; static size_t g_explicit_pos;
static double g_mean_gap;
static int g_max_switches;
static J g_switch_log;                  // recorded [[step,to],...]
static uint64_t g_ileave_hash;
static long g_nswitch, g_midcall_switch, g_shared_writes, g_shared_write_preempt, g_forced_switch;
static std::map<std::string, long> g_switch_fn, g_shared_write_at;
static bool g_pending_bias;
static const uint64_t STEP_LIMIT = 400000000ULL;

static uint64_t draw_gap() {
  double u = (double)(g_srng.next() >> 11) / (double)(1ULL << 53);
  if (u < 1e-12) u = 1e-12;
  double gp = -g_mean_gap * std::log(u);
  if (gp < 1) gp = 1; if (gp > 1e12) gp = 1e12;
  return (uint64_t)gp;
}
static void plan_next_decision() {
  if (g_explicit) g_next_decision = g_explicit_pos < g_explicit_sw.size() ? g_explicit_sw[g_explicit_pos].first : UINT64_MAX;
  else g_next_decision = (g_nswitch >= g_max_switches) ? UINT64_MAX : g_step + draw_gap();
}
static int runnable_count() { int n = 0; for (int t = 0; t < g_ntasks; t++) if (g_t[t].st == T_RUNNABLE) n++; return n; }

static void do_switch(int to, const char *why) {
  int from = g_cur;
  std::string fn = (from >= 0 && !g_t[from].stack.empty()) ? fn_name(g_t[from].stack.back()) : std::string(from >= 0 && g_t[from].in_api ? "<api-entry>" : "<between-calls>");
  bool mid = from >= 0 && g_t[from].in_api && g_t[from].st != T_DONE;
  ev(vfmt("switch step=%llu t%d->t%d op=%d at=%s why=%s", (unsigned long long)g_step, from, to, from >= 0 ? g_t[from].op : -1, fn.c_str(), why));
  J e = J::arr(); e.push((long long)g_step); e.push(to); g_switch_log.push(e);
  g_nswitch++; if (mid) g_midcall_switch++;
  g_switch_fn[fn]++;
  std::string proj = vfmt("%d>%d@%d:%s", from, to, from >= 0 ? g_t[from].op : -1, fn.c_str());
  g_ileave_hash = fnv1a(proj, g_ileave_hash);
  g_cur = to;
  plan_next_decision();      // everything is decided before the baton moves: after sem_post this thread touches nothing shared
  sem_post(&g_t[to].sem);
}
static void wait_my_turn(int me) { while (sem_wait(&g_t[me].sem) < 0 && errno == EINTR) {} }

// pick another runnable task (seeded: uniform; explicit: the recorded one if it can run)
static int pick_other(int me, int wanted) {
  if (wanted >= 0 && wanted < g_ntasks && wanted != me && g_t[wanted].st == T_RUNNABLE) return wanted;
  std::vector<int> c; for (int t = 0; t < g_ntasks; t++) if (t != me && g_t[t].st == T_RUNNABLE) c.push_back(t);
  if (c.empty()) return -1;
  if (g_explicit) return c[0];
  return c[g_srng.below(c.size())];
}

static void decision_point(int me) {
  int wanted = -1; bool due = false;
  if (g_explicit) {
    while (g_explicit_pos < g_explicit_sw.size() && g_explicit_sw[g_explicit_pos].first <= g_step) { wanted = g_explicit_sw[g_explicit_pos].second; g_explicit_pos++; due = true; }
  } else due = true;
  if (due && wanted != me) {
    int to = pick_other(me, wanted);
    if (to >= 0) { do_switch(to, "preempt"); wait_my_turn(me); return; }
  }
  plan_next_decision();
}
static inline void tick(int me) {
  if (++g_step >= g_next_decision) {
    if (g_step > STEP_LIMIT) crash_exit("machinery", "step limit exceeded (runaway run)");
    decision_point(me);
  } else if (g_pending_bias) {
    g_pending_bias = false;
    if (!g_explicit && g_bias && g_shared_write_preempt < 12 && g_srng.chance(1, 2)) {
      int to = pick_other(me, -1);
      if (to >= 0) { g_shared_write_preempt++; do_switch(to, "after-shared-write"); wait_my_turn(me); }
    }
  }
}
// the running task can no longer run (finished or blocked): somebody else must
static void yield_forced(int me, const char *why) {
  int wanted = -1;
  if (g_explicit && g_explicit_pos < g_explicit_sw.size() && g_explicit_sw[g_explicit_pos].first <= g_step + 1) { wanted = g_explicit_sw[g_explicit_pos].second; g_explicit_pos++; }
  int to = pick_other(me, wanted);
  g_forced_switch++;
  if (to < 0) {
    bool all_done = true; for (int t = 0; t < g_ntasks; t++) if (g_t[t].st != T_DONE) all_done = false;
    if (!all_done) { violation(nullptr, "deadlock", me, g_t[me].op, "every unfinished task is blocked on a simulated mutex"); crash_exit("deadlock", "no runnable task"); }
    g_cur = -1; sem_post(&g_main_sem); return;
  }
  do_switch(to, why);
}

// ------------------------------------------------------------------ regions
// Caller-owned regions are private to their task.  Regions the library itself allocated ("lib-*") may legitimately
// change hands (a pool or cache behind a lock): for those the region is one variable of a happens-before detector
// (last write + last read per task, compared with the accessing task's vector clock), so a hand-over through any
// synchronisation the runtime models is clean and one without it is a race.
struct Region { uintptr_t lo, hi; int owner; const char *name; bool lib; int w_tid; uint32_t w_clk; uint32_t r_clk[MAX_TASKS]; };
static std::vector<Region> g_regions;   // sorted by lo
static unsigned long g_region_handovers;
static size_t g_last_hit[MAX_TASKS];
static Region *find_region(uintptr_t a, int me) {
  size_t h = g_last_hit[me];
  if (h < g_regions.size() && a >= g_regions[h].lo && a < g_regions[h].hi) return &g_regions[h];
  size_t lo = 0, hi = g_regions.size();
  while (lo < hi) { size_t mid = (lo + hi) / 2; if (g_regions[mid].lo <= a) lo = mid + 1; else hi = mid; }
  if (lo == 0) return nullptr;
  Region &r = g_regions[lo - 1];
  if (a < r.hi) { g_last_hit[me] = lo - 1; return &r; }
  return nullptr;
}
void thr::co_yield_point(const char *) {}
void thr::region_add(const void *p, size_t n, int owner, const char *name) {
  Region r{(uintptr_t)p, (uintptr_t)p + n, owner, name, name[0] == 'l' && name[1] == 'i' && name[2] == 'b' && name[3] == '-', -1, 0, {0}};
  auto it = std::lower_bound(g_regions.begin(), g_regions.end(), r, [](const Region &a, const Region &b) { return a.lo < b.lo; });
  g_regions.insert(it, r);
}
// ------------------------------------------------------------------ shadow for everything that is nobody's region
struct Cell { uintptr_t key; uint32_t w_clk; int8_t w_tid; int w_op; const void *w_fn; uint32_t r_clk[MAX_TASKS]; const void *r_fn[MAX_TASKS]; };
static const size_t SHADOW_CAP = 1u << 17;
static Cell *g_shadow; static size_t g_shadow_used;
static Cell *cell_for(uintptr_t granule) {
  size_t h = (size_t)((granule * 0x9e3779b97f4a7c15ULL) >> 40) & (SHADOW_CAP - 1);
  for (;;) {
    Cell &c = g_shadow[h];
    if (c.key == granule) return &c;
    if (!c.key) {
      if (++g_shadow_used > SHADOW_CAP * 3 / 4) crash_exit("machinery", "race-detector shadow map overflow: library memory that no seam registered");
      c.key = granule; c.w_tid = -1; return &c;
    }
    h = (h + 1) & (SHADOW_CAP - 1);
  }
}
static void shadow_clear_range(uintptr_t lo, uintptr_t hi) {
  // memory handed back to the allocator: forget its history (allocator edge)
  if (!g_shadow_used) return;
  for (size_t i = 0; i < SHADOW_CAP; i++) { Cell &c = g_shadow[i]; if (c.key && c.key * 8 >= (lo & ~7ul) && c.key * 8 < hi) { c.w_tid = -1; c.w_clk = 0; memset(c.r_clk, 0, sizeof c.r_clk); } }
}
void thr::region_del(const void *p) {
  for (size_t i = 0; i < g_regions.size(); i++) if (g_regions[i].lo == (uintptr_t)p) { shadow_clear_range(g_regions[i].lo, g_regions[i].hi); g_regions.erase(g_regions.begin() + (long)i); for (auto &h : g_last_hit) h = (size_t)-1; return; }
}

static std::string describe_addr(uintptr_t a) {
  const Sym *s = sym_at(a);
  if (s && !s->func) return vfmt("global '%s'+%zu", s->name, (size_t)(a - s->lo));
  return "memory outside every caller-owned object";
}
static std::string stack_text(int t) {
  std::string s; int n = 0;
  for (size_t i = g_t[t].stack.size(); i-- > 0 && n < 8; n++) { s += fn_name(g_t[t].stack[i]); if (i) s += " < "; }
  return s.empty() ? "<no library frame>" : s;
}
static void report_race(int me, uintptr_t a, bool is_write, int other, bool other_write, const void *other_fn, int other_op, const std::string &what) {
  if (run_violated()) return;
  violation(nullptr, "race", me, g_t[me].op,
            vfmt("data race on %s: %s by task %d (op %d) in %s  vs  %s by task %d (op %d) in %s; no happens-before between them",
                 what.c_str(), is_write ? "write" : "read", me, g_t[me].op, stack_text(me).c_str(), other_write ? "write" : "read", other, other_op,
                 other_fn ? fn_name(other_fn).c_str() : "?"));
}

static inline bool in_ro(uintptr_t a) { for (auto &r : g_ro) if (a >= r.first && a < r.second) return true; return false; }

static void shadow_access(int me, uintptr_t a, size_t n, bool w) {
  const void *fn = g_t[me].stack.empty() ? nullptr : g_t[me].stack.back();
  for (uintptr_t g = a >> 3; g <= (a + n - 1) >> 3; g++) {
    Cell *c = cell_for(g);
    if (c->w_tid >= 0 && c->w_tid != me && c->w_clk > g_t[me].vc[c->w_tid]) { report_race(me, g << 3, w, c->w_tid, true, c->w_fn, c->w_op, describe_addr(a)); return; }
    if (w) {
      for (int u = 0; u < g_ntasks; u++) if (u != me && c->r_clk[u] > g_t[me].vc[u]) { report_race(me, g << 3, true, u, false, c->r_fn[u], -1, describe_addr(a)); return; }
      c->w_tid = (int8_t)me; c->w_clk = g_t[me].vc[me]; c->w_fn = fn; c->w_op = g_t[me].op;
    } else { c->r_clk[me] = g_t[me].vc[me]; c->r_fn[me] = fn; }
  }
  if (w) { g_shared_writes++; g_pending_bias = true; g_shared_write_at[describe_addr(a) + " in " + (fn ? fn_name(fn) : std::string("?"))]++; }
}

static int g_atomic_streak[MAX_TASKS];
static inline void mem_access(const void *p, size_t n, bool w) {
  if (!g_active) return;
  int me = g_cur;
  g_atomic_streak[me] = 0;
  uintptr_t a = (uintptr_t)p;
  if (a - g_t[me].stk_lo < g_t[me].stk_hi - g_t[me].stk_lo) { tick(me); return; }
  Region *r = find_region(a, me);
  if (r && r->lib) {
    if (r->w_tid >= 0 && r->w_tid != me && r->w_clk > g_t[me].vc[r->w_tid]) {
      if (!run_violated()) violation(nullptr, "race", me, g_t[me].op, vfmt("task %d %s %s+%zu, last written by task %d, with no happens-before between them, in %s", me, w ? "writes" : "reads", r->name, (size_t)(a - r->lo), r->w_tid, stack_text(me).c_str()));
    } else if (w) {
      for (int u = 0; u < g_ntasks; u++) if (u != me && r->r_clk[u] > g_t[me].vc[u]) {
        if (!run_violated()) violation(nullptr, "race", me, g_t[me].op, vfmt("task %d writes %s+%zu, read by task %d, with no happens-before between them, in %s", me, r->name, (size_t)(a - r->lo), u, stack_text(me).c_str()));
        break;
      }
      if (r->w_tid != me && r->w_tid >= 0) g_region_handovers++;
      r->w_tid = me; r->w_clk = g_t[me].vc[me]; memset(r->r_clk, 0, sizeof r->r_clk);
    } else r->r_clk[me] = g_t[me].vc[me];
  } else if (r) {
    if (r->owner != me) {
      if (r->owner == -1) { if (w && !run_violated()) violation(nullptr, "race", me, g_t[me].op, vfmt("write to read-only input shared between tasks (%s) in %s", r->name, stack_text(me).c_str())); }
      else if (!run_violated())
        violation(nullptr, "race", me, g_t[me].op, vfmt("task %d %s %s+%zu, which belongs to task %d, in %s", me, w ? "writes" : "reads", r->name, (size_t)(a - r->lo), r->owner, stack_text(me).c_str()));
    }
  } else if (w || !in_ro(a)) shadow_access(me, a, n ? n : 1, w);
  tick(me);
}

// ------------------------------------------------------------------ the TSan compile-time ABI
extern "C" {
void __tsan_init(void) {}
#define RW(n) \
  void __tsan_read##n(void *p) { mem_access(p, n, false); } \
  void __tsan_write##n(void *p) { mem_access(p, n, true); } \
  void __tsan_unaligned_read##n(void *p) { mem_access(p, n, false); } \
  void __tsan_unaligned_write##n(void *p) { mem_access(p, n, true); }
RW(1) RW(2) RW(4) RW(8) RW(16)
void __tsan_read_range(void *p, unsigned long n) { mem_access(p, n, false); }
void __tsan_write_range(void *p, unsigned long n) { mem_access(p, n, true); }
void __tsan_vptr_update(void **, void *) {}
void __tsan_vptr_read(void **) {}
void __tsan_func_entry(void *) {
  if (!g_active) return;
  g_t[g_cur].stack.push_back(__builtin_return_address(0));
}
void __tsan_func_exit(void) {
  if (!g_active) return;
  if (!g_t[g_cur].stack.empty()) g_t[g_cur].stack.pop_back();
}
void __tsan_ignore_thread_begin(void) {}
void __tsan_ignore_thread_end(void) {}

// synchronisation a correct future change might add: ordered, never a false race
struct SyncObj { uint32_t vc[MAX_TASKS]; int holder; };
static std::map<const void *, SyncObj> *g_sync;
static SyncObj &sync_for(const void *p) { if (!g_sync) g_sync = new std::map<const void *, SyncObj>(); auto it = g_sync->find(p); if (it == g_sync->end()) { SyncObj s; memset(&s, 0, sizeof s); s.holder = -1; it = g_sync->emplace(p, s).first; } return it->second; }
static void acquire(int me, SyncObj &s) { for (int u = 0; u < MAX_TASKS; u++) if (s.vc[u] > g_t[me].vc[u]) g_t[me].vc[u] = s.vc[u]; }
static void release(int me, SyncObj &s) { for (int u = 0; u < MAX_TASKS; u++) if (g_t[me].vc[u] > s.vc[u]) s.vc[u] = g_t[me].vc[u]; g_t[me].vc[me]++; }

int sim_pthread_mutex_lock(pthread_mutex_t *m) {
  if (!g_active) return 0;
  int me = g_cur; SyncObj &s = sync_for(m);
  while (s.holder >= 0 && s.holder != me) { g_t[me].st = T_BLOCKED; g_t[me].blocked_on = m; yield_forced(me, "mutex-blocked"); wait_my_turn(me); }
  s.holder = me; acquire(me, s); ev(vfmt("mutex-lock t%d", me)); tick(me);
  return 0;
}
int sim_pthread_mutex_trylock(pthread_mutex_t *m) {
  if (!g_active) return 0;
  int me = g_cur; SyncObj &s = sync_for(m);
  if (s.holder >= 0 && s.holder != me) { tick(me); return EBUSY; }
  s.holder = me; acquire(me, s); tick(me); return 0;
}
int sim_pthread_mutex_unlock(pthread_mutex_t *m) {
  if (!g_active) return 0;
  int me = g_cur; SyncObj &s = sync_for(m);
  release(me, s); s.holder = -1;
  for (int t = 0; t < g_ntasks; t++) if (g_t[t].st == T_BLOCKED && g_t[t].blocked_on == m) { g_t[t].st = T_RUNNABLE; g_t[t].blocked_on = nullptr; }
  ev(vfmt("mutex-unlock t%d", me)); tick(me);
  return 0;
}
int sim_pthread_once(pthread_once_t *o, void (*fn)(void)) {
  if (!g_active) { static std::map<void *, bool> done; if (!done[o]) { done[o] = true; fn(); } return 0; }
  int me = g_cur; SyncObj &s = sync_for(o);
  // holder: -1 not started, me running, -2 done
  while (s.holder >= 0 && s.holder != me) { g_t[me].st = T_BLOCKED; g_t[me].blocked_on = o; yield_forced(me, "once-blocked"); wait_my_turn(me); }
  if (s.holder == -1) {
    s.holder = me; tick(me); fn(); release(me, s); s.holder = -2;
    for (int t = 0; t < g_ntasks; t++) if (g_t[t].st == T_BLOCKED && g_t[t].blocked_on == o) { g_t[t].st = T_RUNNABLE; g_t[t].blocked_on = nullptr; }
  } else acquire(me, s);
  tick(me);
  return 0;
}

// other lock flavours a correct change might use: all behave like the simulated mutex
int sim_pthread_rwlock_rdlock(void *l) { return sim_pthread_mutex_lock((pthread_mutex_t *)l); }
int sim_pthread_rwlock_wrlock(void *l) { return sim_pthread_mutex_lock((pthread_mutex_t *)l); }
int sim_pthread_rwlock_unlock(void *l) { return sim_pthread_mutex_unlock((pthread_mutex_t *)l); }
int sim_pthread_spin_lock(void *l) { return sim_pthread_mutex_lock((pthread_mutex_t *)l); }
int sim_pthread_spin_unlock(void *l) { return sim_pthread_mutex_unlock((pthread_mutex_t *)l); }
int sim_mtx_lock(void *l) { sim_pthread_mutex_lock((pthread_mutex_t *)l); return 0; /* thrd_success */ }
int sim_mtx_trylock(void *l) { return sim_pthread_mutex_trylock((pthread_mutex_t *)l) ? 1 /* thrd_busy */ : 0; }
int sim_mtx_unlock(void *l) { sim_pthread_mutex_unlock((pthread_mutex_t *)l); return 0; }
void sim_call_once(void *flag, void (*fn)(void)) { sim_pthread_once((pthread_once_t *)flag, fn); }

// C11 / __atomic operations: never racy themselves; acquire+release on the location
// Ordering matters here: the preemption point comes FIRST, then the vector-clock bookkeeping and the real operation
// happen back to back (no other task can run in between).  An earlier version ticked in the middle; a task could
// then "acquire" before another task's release and still read the released value afterwards: a false race on a
// correctly published lazy table (negative control neg-atomic-once-flag).
// A task that keeps issuing atomic operations without doing anything else is spinning on another task: after a
// few dozen it yields (unconditionally, outside the preemption budget), as a real scheduler eventually would.
static void atomic_point(int me) {
  tick(me);
  if (++g_atomic_streak[me] >= 48) {
    g_atomic_streak[me] = 0;
    int to = pick_other(me, -1);
    if (to >= 0) { do_switch(to, "spin-yield"); wait_my_turn(me); }
  }
}
#define ATOMIC_PRE() int me_ = g_cur; SyncObj *so_ = nullptr; if (g_active) { atomic_point(me_); me_ = g_cur; so_ = &sync_for((const void *)a); }
#define ATOMIC_FOR(T, N) \
  T __tsan_atomic##N##_load(const volatile T *a, int) { ATOMIC_PRE(); T v = __atomic_load_n(a, __ATOMIC_SEQ_CST); if (so_) acquire(me_, *so_); return v; } \
  void __tsan_atomic##N##_store(volatile T *a, T v, int) { ATOMIC_PRE(); if (so_) release(me_, *so_); __atomic_store_n(a, v, __ATOMIC_SEQ_CST); } \
  T __tsan_atomic##N##_exchange(volatile T *a, T v, int) { ATOMIC_PRE(); if (so_) { acquire(me_, *so_); release(me_, *so_); } return __atomic_exchange_n(a, v, __ATOMIC_SEQ_CST); } \
  T __tsan_atomic##N##_fetch_add(volatile T *a, T v, int) { ATOMIC_PRE(); if (so_) { acquire(me_, *so_); release(me_, *so_); } return __atomic_fetch_add(a, v, __ATOMIC_SEQ_CST); } \
  T __tsan_atomic##N##_fetch_sub(volatile T *a, T v, int) { ATOMIC_PRE(); if (so_) { acquire(me_, *so_); release(me_, *so_); } return __atomic_fetch_sub(a, v, __ATOMIC_SEQ_CST); } \
  T __tsan_atomic##N##_fetch_and(volatile T *a, T v, int) { ATOMIC_PRE(); if (so_) { acquire(me_, *so_); release(me_, *so_); } return __atomic_fetch_and(a, v, __ATOMIC_SEQ_CST); } \
  T __tsan_atomic##N##_fetch_or(volatile T *a, T v, int) { ATOMIC_PRE(); if (so_) { acquire(me_, *so_); release(me_, *so_); } return __atomic_fetch_or(a, v, __ATOMIC_SEQ_CST); } \
  T __tsan_atomic##N##_fetch_xor(volatile T *a, T v, int) { ATOMIC_PRE(); if (so_) { acquire(me_, *so_); release(me_, *so_); } return __atomic_fetch_xor(a, v, __ATOMIC_SEQ_CST); } \
  int __tsan_atomic##N##_compare_exchange_strong(volatile T *a, T *c, T v, int, int) { ATOMIC_PRE(); if (so_) { acquire(me_, *so_); release(me_, *so_); } return __atomic_compare_exchange_n(a, c, v, 0, __ATOMIC_SEQ_CST, __ATOMIC_SEQ_CST); } \
  int __tsan_atomic##N##_compare_exchange_weak(volatile T *a, T *c, T v, int, int) { ATOMIC_PRE(); if (so_) { acquire(me_, *so_); release(me_, *so_); } return __atomic_compare_exchange_n(a, c, v, 0, __ATOMIC_SEQ_CST, __ATOMIC_SEQ_CST); } \
  T __tsan_atomic##N##_compare_exchange_val(volatile T *a, T c, T v, int, int) { ATOMIC_PRE(); if (so_) { acquire(me_, *so_); release(me_, *so_); } __atomic_compare_exchange_n(a, &c, v, 0, __ATOMIC_SEQ_CST, __ATOMIC_SEQ_CST); return c; }
ATOMIC_FOR(uint8_t, 8) ATOMIC_FOR(uint16_t, 16) ATOMIC_FOR(uint32_t, 32) ATOMIC_FOR(uint64_t, 64)
void __tsan_atomic_thread_fence(int) { __atomic_thread_fence(__ATOMIC_SEQ_CST); }
void __tsan_atomic_signal_fence(int) {}

// bulk and string functions called from library objects (redirected by objcopy)
void *sim_memcpy(void *d, const void *s, size_t n) { if (n) { mem_access(s, n, false); mem_access(d, n, true); } return memcpy(d, s, n); }
void *sim_memmove(void *d, const void *s, size_t n) { if (n) { mem_access(s, n, false); mem_access(d, n, true); } return memmove(d, s, n); }
void *sim_memset(void *d, int c, size_t n) { if (n) mem_access(d, n, true); return memset(d, c, n); }
void sim_explicit_bzero(void *d, size_t n) { if (n) mem_access(d, n, true); explicit_bzero(d, n); }
int sim_memcmp(const void *a, const void *b, size_t n) { if (n) { mem_access(a, n, false); mem_access(b, n, false); } return memcmp(a, b, n); }
int sim_bcmp(const void *a, const void *b, size_t n) { if (n) { mem_access(a, n, false); mem_access(b, n, false); } return memcmp(a, b, n); }
size_t sim_strlen(const char *s) { size_t n = strlen(s); mem_access(s, n + 1, false); return n; }
size_t sim_strcspn(const char *s, const char *r) { size_t n = strcspn(s, r); mem_access(s, n + 1, false); return n; }
size_t sim_strspn(const char *s, const char *a) { size_t n = strspn(s, a); mem_access(s, n + 1, false); return n; }
int sim_strncmp(const char *a, const char *b, size_t n) { size_t la = strnlen(a, n), lb = strnlen(b, n); size_t m = (la < lb ? la : lb); if (m < n) m++; if (m) { mem_access(a, m, false); mem_access(b, m, false); } return strncmp(a, b, n); }
char *sim_strchr(const char *s, int c) { char *r = strchr((char *)s, c); mem_access(s, r ? (size_t)(r - s) + 1 : strlen(s) + 1, false); return r; }
char *sim_strrchr(const char *s, int c) { mem_access(s, strlen(s) + 1, false); return strrchr((char *)s, c); }
unsigned long sim_strtoul(const char *s, char **end, int base) { char *e; unsigned long v = strtoul(s, &e, base); mem_access(s, (size_t)(e - s) + 1, false); if (end) *end = e; return v; }
int sim_snprintf(char *buf, size_t n, const char *fmt, ...) {
  va_list ap; va_start(ap, fmt); int r = vsnprintf(buf, n, fmt, ap); va_end(ap);
  if (n && r >= 0) mem_access(buf, (size_t)r + 1 < n ? (size_t)r + 1 : n, true);
  return r;
}
}  // extern "C"

// ------------------------------------------------------------------ run control
void thr::init() {
  load_symbols();
  g_shadow = (Cell *)mmap(nullptr, SHADOW_CAP * sizeof(Cell), PROT_READ | PROT_WRITE, MAP_PRIVATE | MAP_ANONYMOUS, -1, 0);
  if (g_shadow == MAP_FAILED) { perror("shadow"); _exit(2); }
  sem_init(&g_main_sem, 0, 0);
  for (auto &t : g_t) sem_init(&t.sem, 0, 0);
}
void thr::begin_run(const J &sch, uint64_t seed, int ntasks) {
  g_ntasks = ntasks; g_cur = -1; g_step = 0; g_active = false;
  if (g_shadow_used) { memset(g_shadow, 0, SHADOW_CAP * sizeof(Cell)); g_shadow_used = 0; }
  g_regions.clear(); for (auto &h : g_last_hit) h = (size_t)-1;
  if (g_sync) g_sync->clear();
  g_switch_log = J::arr(); g_ileave_hash = 0xcbf29ce484222325ULL;
  g_nswitch = g_midcall_switch = g_shared_writes = g_shared_write_preempt = g_forced_switch = 0; g_region_handovers = 0; g_switch_fn.clear(); g_shared_write_at.clear(); g_pending_bias = false;
  g_explicit = sch.str("mode") == "explicit";
  g_explicit_sw.clear(); g_explicit_pos = 0;
  if (g_explicit) for (auto &e : sch.at("switches").a) if (e.a.size() == 2) g_explicit_sw.emplace_back((uint64_t)e.a[0].n, (int)e.a[1].n);
  g_srng = Rng((uint64_t)sch.i("seed", (long long)seed), "schedule");
  g_bias = sch.i("bias", 1) != 0;
  // swarm: per-run preemption density, log-uniform mean gap between 50 and 5e5 steps
  double e = 1.7 + 4.0 * ((double)(g_srng.next() >> 11) / (double)(1ULL << 53));
  g_mean_gap = std::pow(10.0, e);
  g_max_switches = 4 + (int)sch.i("d", 4) * 8;
  for (int t = 0; t < MAX_TASKS; t++) { g_t[t].st = t < ntasks ? T_RUNNABLE : T_DONE; g_t[t].stack.clear(); memset(g_t[t].vc, 0, sizeof g_t[t].vc); g_t[t].vc[t] = 1; g_t[t].op = -1; g_t[t].in_api = false; g_t[t].blocked_on = nullptr; }
}
void thr::task_start(int) {}
void thr::task_finish(int) {}
void thr::api_boundary(int task, int op, bool enter) {
  g_t[task].op = op; g_t[task].in_api = enter;
  if (!enter) g_t[task].stack.clear();
  if (g_active) tick(task);
}

struct Boot { void (*body)(int, void *); void *arg; int task; };
static void *boot(void *p) {
  Boot *b = (Boot *)p; int me = b->task;
  set_cur_task(me);
  wait_my_turn(me);
  b->body(me, b->arg);
  g_t[me].st = T_DONE; g_t[me].in_api = false; g_t[me].stack.clear();
  yield_forced(me, "task-finished");
  return nullptr;
}
void thr::run_tasks(int n, void (*body)(int, void *), void *arg, size_t) {
  Boot b[MAX_TASKS];
  for (int t = 0; t < n; t++) {
    g_t[t].stk_lo = (uintptr_t)g_stack[t].lo; g_t[t].stk_hi = g_t[t].stk_lo + g_stack[t].size;
    region_add(g_stack[t].lo, g_stack[t].size, t, "task-stack");
    pthread_attr_t a; pthread_attr_init(&a); pthread_attr_setstack(&a, g_stack[t].lo, g_stack[t].size);
    b[t] = Boot{body, arg, t};
    if (pthread_create(&g_t[t].th, &a, boot, &b[t])) { perror("pthread_create"); _exit(2); }
    pthread_attr_destroy(&a);
  }
  g_active = true;
  plan_next_decision();
  int first = 0;
  if (g_explicit) { if (!g_explicit_sw.empty() && g_explicit_sw[0].first == 0) { first = g_explicit_sw[0].second; g_explicit_pos = 1; if (first < 0 || first >= n) first = 0; } }
  else first = (int)g_srng.below((uint64_t)n);
  do_switch(first, "start");
  while (sem_wait(&g_main_sem) < 0 && errno == EINTR) {}
  g_active = false;
  for (int t = 0; t < n; t++) pthread_join(g_t[t].th, nullptr);
  for (int t = 0; t < n; t++) region_del(g_stack[t].lo);
}
J thr::end_run() {
  J o = J::obj();
  o["steps"] = (long long)g_step; o["switches"] = (long long)g_nswitch; o["midcall_switches"] = (long long)g_midcall_switch;
  o["forced_switches"] = (long long)g_forced_switch;
  o["shared_writes"] = (long long)g_shared_writes; o["lib_region_handovers"] = (long long)g_region_handovers; o["shared_write_preempt"] = (long long)g_shared_write_preempt;
  o["shadow_cells"] = (long long)g_shadow_used;
  o["interleaving"] = vfmt("%016llx", (unsigned long long)g_ileave_hash);
  J fn = J::obj(); for (auto &kv : g_switch_fn) fn[kv.first] = (long long)kv.second; o["switch_at"] = fn;
  if (!g_shared_write_at.empty()) { J sw = J::obj(); for (auto &kv : g_shared_write_at) sw[kv.first] = (long long)kv.second; o["shared_write_at"] = sw; }
  o["schedule"] = g_switch_log;
  return o;
}
