// Simulated allocator / mapping / entropy / abort seams (DESIGN.md 3.6, 3.7).
// The library objects reach these through `objcopy --redefine-sym`; nothing
// else in the process does.
#include <cerrno>
#include <cstdlib>
#include <cstring>
#include <sys/mman.h>
#include <unistd.h>
#include "sim.hh"

#ifndef MAP_HUGE_SHIFT
#define MAP_HUGE_SHIFT 26
#endif

release_hook_t g_release_hook = nullptr;
static thread_local int tl_task = 0;
static int g_cur_op[MAX_TASKS];
int cur_task() { return tl_task; }
void set_cur_task(int t) { tl_task = t; }
int cur_op(int task) { return g_cur_op[task]; }
void set_cur_op(int task, int op) { g_cur_op[task] = op; }
void crash_exit(const char *why, const char *detail);  // engine.cc

MemLayer &MemLayer::get() { static MemLayer m; return m; }

void MemLayer::begin_run(const MemEnv &e) {
  env = e;
  for (int t = 0; t < MAX_TASKS; t++) { op_reqs[t].clear(); op_faults[t].clear(); fallible_seen[t] = 0; }
  serial = 0; soft_calls = 0;
  stats.clear();
}
void MemLayer::begin_op(int task, const std::vector<int> &faults, bool hugetlb_ok) {
  op_reqs[task].clear();
  op_faults[task] = faults;
  fallible_seen[task] = 0;
  env.hugetlb_ok = hugetlb_ok;
}
void MemLayer::end_op(int task) { op_faults[task].clear(); }
const Block *MemLayer::find(const void *p) const {
  auto it = live.find((uintptr_t)p);
  return it == live.end() ? nullptr : &it->second;
}
size_t MemLayer::live_count(bool maps) const {
  size_t n = 0;
  for (auto &kv : live) if (kv.second.is_map == maps) n++;
  return n;
}

static void dirty_fill(void *p, size_t n, uint64_t seed) {
  // never zero: every byte has bit 0 set
  unsigned char *c = (unsigned char *)p;
  uint64_t x = seed;
  size_t i = 0;
  for (; i + 8 <= n; i += 8) { uint64_t w = splitmix64(x) | 0x0101010101010101ULL; memcpy(c + i, &w, 8); }
  if (i < n) { uint64_t w = splitmix64(x) | 0x0101010101010101ULL; memcpy(c + i, &w, n - i); }
}

static bool fault_due(MemLayer &m, int t, int k) {
  for (int f : m.op_faults[t]) if (f == k) return true;
  return false;
}
static void log_req(MemLayer &m, int t, const MemReq &rq) {
  m.op_reqs[t].push_back(rq);
  static const char *kn[] = {"malloc", "realloc", "free", "mmap", "munmap", "memory-syscall"};
  ev(vfmt("mem t%d op%d %s size=%zu k=%d%s%s%s", t, cur_op(t), kn[rq.kind], rq.size, rq.k,
          rq.hugetlb ? " hugetlb" : "", rq.failed ? " FAILED" : "", rq.injected ? " injected" : ""));
  m.stats[std::string("req_") + kn[rq.kind]]++;
  if (rq.injected) m.stats[std::string("fault_") + kn[rq.kind] + "_fail"]++;
}

static void *new_block(MemLayer &m, int t, size_t n, bool from_harness) {
  void *p = malloc(n ? n : 1);
  if (!p) { crash_exit("machinery", "real malloc failed"); }
  Block b{n, t, cur_op(t), false, from_harness, false, ++m.serial};
  dirty_fill(p, n, m.env.fill_seed * 0x9e3779b97f4a7c15ULL + b.serial);
  m.live[(uintptr_t)p] = b;
  thr::region_add(p, n ? n : 1, t, from_harness ? "caller-block" : "lib-heap");
  return p;
}
static void drop_block(MemLayer &m, void *p) {
  thr::region_del(p);
  m.live.erase((uintptr_t)p);
}

void *MemLayer::h_malloc(size_t n, int task) { return new_block(*this, task, n, true); }
void MemLayer::h_free(void *p) {
  if (!p) return;
  auto it = live.find((uintptr_t)p);
  if (it == live.end()) { crash_exit("machinery", "h_free of unknown block"); }
  bool is_map = it->second.is_map; size_t sz = it->second.size;
  drop_block(*this, p);
  if (is_map) munmap(p, sz); else free(p);
}

extern "C" {

void *sim_malloc(size_t n) {
  thr::co_yield_point("malloc");
  MemLayer &m = MemLayer::get(); int t = cur_task();
  int k = ++m.fallible_seen[t];
  bool inj = fault_due(m, t, k);
  log_req(m, t, MemReq{RQ_MALLOC, n, false, inj, inj, k});
  if (inj) { errno = ENOMEM; return nullptr; }
  return new_block(m, t, n, false);
}

void *sim_calloc(size_t a, size_t b) {
  size_t n = a * b;
  if (b && n / b != a) { errno = ENOMEM; return nullptr; }
  void *p = sim_malloc(n);
  if (p) memset(p, 0, n);
  return p;
}

void sim_free(void *p) {
  thr::co_yield_point("free");
  if (!p) return;
  MemLayer &m = MemLayer::get(); int t = cur_task();
  auto it = m.live.find((uintptr_t)p);
  if (it == m.live.end() || it->second.is_map) {
    violation(nullptr, "invalid-free", t, cur_op(t), "free() of a pointer that is not a live heap block (double free or foreign pointer)");
    return;  // do not pass it on
  }
  log_req(m, t, MemReq{RQ_FREE, it->second.size, false, false, false, 0});
  if (g_release_hook) g_release_hook(t, p, it->second.size, RQ_FREE, it->second);
  drop_block(m, p);
  free(p);
}

void *sim_realloc(void *p, size_t n) {
  thr::co_yield_point("realloc");
  MemLayer &m = MemLayer::get(); int t = cur_task();
  int k = ++m.fallible_seen[t];
  bool inj = fault_due(m, t, k);
  if (p) {
    auto it = m.live.find((uintptr_t)p);
    if (it == m.live.end() || it->second.is_map) {
      violation(nullptr, "invalid-free", t, cur_op(t), "realloc() of a pointer that is not a live heap block");
      errno = ENOMEM; return nullptr;
    }
  }
  log_req(m, t, MemReq{RQ_REALLOC, n, false, inj, inj, k});
  if (inj) { errno = ENOMEM; return nullptr; }
  if (!p) return new_block(m, t, n, false);
  Block old = m.live[(uintptr_t)p];
  // the caller-visible moment at which the old block leaves the library's hands
  if (g_release_hook) g_release_hook(t, p, old.size, RQ_REALLOC, old);
  if (m.env.realloc_move) {
    void *q = new_block(m, t, n, false);
    memcpy(q, p, old.size < n ? old.size : n);
    drop_block(m, p);
    free(p);
    m.stats["realloc_moved"]++;
    return q;
  }
  drop_block(m, p);
  void *q = realloc(p, n ? n : 1);
  if (!q) crash_exit("machinery", "real realloc failed");
  Block b{n, t, cur_op(t), false, false, false, ++m.serial};
  if (n > old.size) dirty_fill((char *)q + old.size, n - old.size, m.env.fill_seed + b.serial);
  m.live[(uintptr_t)q] = b;
  thr::region_add(q, n ? n : 1, t, "lib-heap");
  m.stats[q == p ? "realloc_inplace" : "realloc_moved"]++;
  return q;
}

int sim_posix_memalign(void **out, size_t al, size_t n) {
  (void)al;
  void *p = sim_malloc(n + al);  // not used by the current tree; keeps the ledger complete if it appears
  if (!p) return ENOMEM;
  *out = p; return 0;
}
void *sim_aligned_alloc(size_t al, size_t n) { (void)al; return sim_malloc(n); }
void *sim_memalign(size_t al, size_t n) { (void)al; return sim_malloc(n); }
void *sim_valloc(size_t n) { return sim_malloc(n); }
void *sim_reallocarray(void *p, size_t a, size_t b) { size_t n = a * b; if (b && n / b != a) { errno = ENOMEM; return nullptr; } return sim_realloc(p, n); }
char *sim_strndup(const char *s, size_t n) { size_t l = strnlen(s, n); char *p = (char *)sim_malloc(l + 1); if (p) { memcpy(p, s, l); p[l] = 0; } return p; }
char *sim_strdup(const char *s) { return sim_strndup(s, strlen(s)); }

void *sim_mmap(void *addr, size_t len, int prot, int flags, int fd, off_t off) {
  MemLayer &m = MemLayer::get(); int t = cur_task();
  int k = ++m.fallible_seen[t];
  bool huge = (flags & MAP_HUGETLB) != 0;
  bool inj = fault_due(m, t, k);
  // the simulated machine has no room for mappings of a terabyte and more (the real one refuses them as well):
  // a deterministic environment refusal, so that absurd memory parameters are cheap, legal workload
  bool toobig = len >= (1ull << 40);
  // ... and a run may model a smaller machine (an address-space or overcommit limit): the refusal is then an injected
  // fault like any other - the reference's real kernel would grant the mapping, so the call simply has to fail cleanly.
  // It lets parameter shapes of 64 MiB .. 512 GiB reach the code that decides by region size without paying for them.
  bool overlimit = !toobig && m.env.map_limit && len >= m.env.map_limit;
  bool envfail = !inj && ((huge && !m.env.hugetlb_ok) || toobig || overlimit);
  MemReq rq{RQ_MMAP, len, huge, inj || envfail, inj || (envfail && overlimit), k};
  log_req(m, t, rq);
  if (envfail && overlimit) m.stats["mmap_refused_by_machine_limit"]++;
  else if (envfail && toobig) m.stats["mmap_refused_too_big"]++;
  else if (envfail) m.stats["hugetlb_refused_by_env"]++;
  if (huge && !inj && !envfail) m.stats["hugetlb_granted"]++;
  if (inj) {
    // mmap(2) documents more than ENOMEM; which one an injected failure reports is a seeded environment choice
    static const int codes[] = {ENOMEM, ENOMEM, ENOMEM, EAGAIN, EPERM, ENFILE, ENODEV, EOVERFLOW, EINVAL, ENOSYS, EACCES, EBADF};
    errno = codes[(m.env.fill_seed + (uint64_t)k * 7 + m.serial) % 12];
    m.stats[std::string("fault_mmap_errno_") + std::to_string(errno)]++;
    return MAP_FAILED;
  }
  if (envfail) {
    // a refused huge-page attempt reports what the kernel of this run reports for it: ENOMEM (no pages in the pool),
    // EINVAL (built without hugetlbfs / size not supported), ENOSYS, EPERM (not allowed to use the pool)
    static const int hcodes[] = {ENOMEM, ENOMEM, ENOMEM, ENOMEM, EINVAL, EINVAL, ENOSYS, EPERM};
    errno = (huge && !overlimit && !toobig) ? hcodes[(m.env.fill_seed >> 7) % 8] : ENOMEM;
    return MAP_FAILED;
  }
  int rflags = flags & ~(MAP_HUGETLB | (0x3f << MAP_HUGE_SHIFT));
  void *p = mmap(addr, len, prot, rflags, fd, off);
  if (p == MAP_FAILED) {
    if (len >= (1ull << 32)) { m.op_reqs[t].back().failed = true; m.stats["mmap_refused_by_host"]++; ev("mem host refused a large mapping"); errno = ENOMEM; return MAP_FAILED; }
    crash_exit("machinery", "real mmap failed");
  }
  Block b{len, t, cur_op(t), true, false, false, ++m.serial};
  m.live[(uintptr_t)p] = b;
  thr::region_add(p, len, t, "lib-mmap");
  thr::co_yield_point("mmap-granted");
  return p;
}
void *sim_mmap64(void *addr, size_t len, int prot, int flags, int fd, off_t off) {
  return sim_mmap(addr, len, prot, flags, fd, off);
}

int sim_munmap(void *p, size_t len) {
  thr::co_yield_point("munmap");
  MemLayer &m = MemLayer::get(); int t = cur_task();
  int k = ++m.fallible_seen[t];
  bool inj = fault_due(m, t, k);
  auto it = m.live.find((uintptr_t)p);
  if (it == m.live.end() || !it->second.is_map || it->second.size != len) {
    log_req(m, t, MemReq{RQ_MUNMAP, len, false, true, false, k});
    violation(nullptr, "invalid-free", t, cur_op(t), vfmt("munmap() of a range that is not a live mapping of that size (len=%zu)", len));
    errno = EINVAL; return -1;
  }
  log_req(m, t, MemReq{RQ_MUNMAP, len, false, inj, inj, k});
  if (inj) { it->second.release_refused = true; errno = EINVAL; return -1; }
  if (g_release_hook) g_release_hook(t, p, len, RQ_MUNMAP, it->second);
  drop_block(m, p);
  munmap(p, len);
  return 0;
}

// Fallible system calls about memory that the current tree does not make (madvise, mlock, mprotect ...).  If a tree
// starts making one, it becomes one more fallible request of the call: it has a position k in the call's sequence, so the
// exhaustive single-fault enumeration and the fault histories fail it like any allocation (with the errno values the
// man pages list for it); otherwise it succeeds without doing anything (no harm for advice/locking calls).
static int mem_syscall(const char *name, size_t len, const int *codes, int ncodes) {
  thr::co_yield_point(name);
  MemLayer &m = MemLayer::get(); int t = cur_task();
  int k = ++m.fallible_seen[t];
  bool inj = fault_due(m, t, k);
  if (!inj && m.env.soft_fault_pct) { uint64_t x = m.env.fill_seed * 0x9e3779b97f4a7c15ULL + (uint64_t)k * 0x632be59bd9b4e019ULL + m.soft_calls++; inj = (splitmix64(x) % 100) < (uint64_t)m.env.soft_fault_pct; }
  log_req(m, t, MemReq{RQ_SYSCALL, len, false, inj, inj, k});
  m.stats[std::string("memory_syscall_") + name]++;
  if (inj) { errno = codes[(m.env.fill_seed + (uint64_t)k * 5 + m.serial) % (uint64_t)ncodes]; return -1; }
  return 0;
}
int sim_madvise(void *, size_t len, int) { static const int c[] = {EPERM, ENOMEM, EAGAIN, EACCES, EIO, EBADF}; return mem_syscall("madvise", len, c, 6); }
int sim_posix_madvise(void *, size_t len, int) { static const int c[] = {ENOMEM, EINVAL}; int r = mem_syscall("posix_madvise", len, c, 2); return r ? errno : 0; }
int sim_mlock(const void *, size_t len) { static const int c[] = {ENOMEM, EPERM, EAGAIN}; return mem_syscall("mlock", len, c, 3); }
int sim_mlock2(const void *, size_t len, unsigned) { static const int c[] = {ENOMEM, EPERM, EAGAIN}; return mem_syscall("mlock2", len, c, 3); }
int sim_munlock(const void *, size_t len) { static const int c[] = {ENOMEM, EPERM}; return mem_syscall("munlock", len, c, 2); }
int sim_mprotect(void *, size_t len, int) { static const int c[] = {ENOMEM, EACCES, EPERM}; return mem_syscall("mprotect", len, c, 3); }
int sim_mincore(void *, size_t len, unsigned char *vec) { static const int c[] = {ENOMEM, EAGAIN}; int r = mem_syscall("mincore", len, c, 2); if (!r && vec) memset(vec, 1, (len + 4095) / 4096); return r; }

void sim_arc4random_buf(void *buf, size_t n) { EntropyDev::get().fill(cur_task(), buf, n); }

void sim___assert_fail(const char *expr, const char *file, unsigned line, const char *func) {
  crash_exit("assert", vfmt("%s:%u: %s: Assertion `%s' failed", file, line, func, expr).c_str());
  _exit(78);
}
void sim_abort(void) { crash_exit("abort", "abort() called inside the library"); _exit(78); }

}  // extern "C"

// ---------------------------------------------------------------- entropy device
EntropyDev &EntropyDev::get() { static EntropyDev d; return d; }
void EntropyDev::begin_run(uint64_t s) {
  seed = s;
  for (int t = 0; t < MAX_TASKS; t++) { counter[t] = 0; draws[t].clear(); }
}
void EntropyDev::note_partial(int task, const void *buf, size_t n) {
  if (!n) return;
  draws[task].push_back(EntropyDraw{task, cur_op(task), std::string((const char *)buf, n), buf, false});
  last[task].buf = buf; last[task].n = n <= sizeof last[task].bytes ? n : 0; if (last[task].n) memcpy(last[task].bytes, buf, n);
}
void EntropyDev::begin_op(int task) { draws[task].clear(); last[task].n = 0; last[task].buf = nullptr; }
void EntropyDev::fill(int task, void *buf, size_t n) {
  // per-task stream: what a task is handed never depends on the schedule
  uint64_t x = seed ^ (0x51ed270b0f1ULL * (uint64_t)(task + 1)) ^ (counter[task]++ * 0x9e3779b97f4a7c15ULL);
  unsigned char *c = (unsigned char *)buf;
  std::string got;
  for (size_t i = 0; i < n; i += 8) {
    uint64_t w = splitmix64(x);
    memcpy(c + i, &w, n - i < 8 ? n - i : 8);
  }
  got.assign((const char *)buf, n);
  draws[task].push_back(EntropyDraw{task, cur_op(task), got, buf, true});
  last[task].buf = buf; last[task].n = n <= sizeof last[task].bytes ? n : 0; if (last[task].n) memcpy(last[task].bytes, buf, n);
  ev(vfmt("entropy t%d op%d arc4random_buf n=%zu bytes=%s", task, cur_op(task), n, hexenc(got).c_str()));
  MemLayer::get().stats["entropy_draws"]++;
}
