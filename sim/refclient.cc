// Client side of the reference server (sim/refsrv.c).  Memoises by request.
#include <cerrno>
#include <csignal>
#include <cstdlib>
#include <unistd.h>
#include "sim.hh"

RefClient &RefClient::get() { static RefClient c; return c; }

void RefClient::start(const std::string &path) {
  int to[2], from[2];
  if (pipe(to) || pipe(from)) { perror("pipe"); _exit(2); }
  pid = fork();
  if (pid < 0) { perror("fork"); _exit(2); }
  if (pid == 0) {
    dup2(to[0], 0); dup2(from[1], 1);
    close(to[0]); close(to[1]); close(from[0]); close(from[1]);
    execl(path.c_str(), path.c_str(), (char *)nullptr);
    perror("exec refsrv"); _exit(127);
  }
  close(to[0]); close(from[1]);
  wfd = to[1]; rfd = from[0];
  signal(SIGPIPE, SIG_IGN);
}

static std::string tok(const Bytes &b) { return b.null ? "n" : "h" + hexenc(b.b); }

RefOut RefClient::ask(const std::string &line) {
  queries++;
  auto it = memo.find(line);
  if (it != memo.end()) return it->second;
  forks++;
  RefOut r;
  if (wfd < 0) { r.bad = true; r.raw = "refsrv not started"; return r; }
  std::string l = line + "\n";
  size_t off = 0;
  while (off < l.size()) {
    ssize_t w = write(wfd, l.data() + off, l.size() - off);
    if (w < 0) { if (errno == EINTR) continue; r.bad = true; r.raw = "write to refsrv failed"; return r; }
    off += (size_t)w;
  }
  size_t nl;
  while ((nl = rbuf.find('\n')) == std::string::npos) {
    char buf[4096];
    ssize_t n = read(rfd, buf, sizeof buf);
    if (n < 0 && errno == EINTR) continue;
    if (n <= 0) { r.bad = true; r.raw = "refsrv closed"; return r; }
    rbuf.append(buf, (size_t)n);
  }
  std::string resp = rbuf.substr(0, nl);
  rbuf.erase(0, nl + 1);
  r.raw = resp;
  if (resp.size() >= 3 && resp[0] == 'S' && resp[2] == 'h') { r.ok = true; hexdec(resp.substr(3), r.str); }
  else if (resp.size() >= 3 && resp[0] == 'F') { r.ok = false; r.err = atoi(resp.c_str() + 2); }
  else if (resp.size() >= 3 && resp[0] == 'I') { r.ok = true; r.ival = atoi(resp.c_str() + 2); }
  else r.bad = true;
  memo[line] = r;
  return r;
}

RefOut RefClient::hash(const Bytes &phrase, const Bytes &setting) {
  return ask("H " + tok(phrase) + " " + tok(setting));
}
RefOut RefClient::gensalt(const Bytes &prefix, unsigned long count, const Bytes &rbytes, int nrbytes, int osize) {
  return ask("G " + tok(prefix) + " " + std::to_string(count) + " " + tok(rbytes) + " " +
             std::to_string(nrbytes) + " " + std::to_string(osize));
}
int RefClient::checksalt(const Bytes &setting) {
  RefOut r = ask("C " + tok(setting));
  return r.bad ? -999 : r.ival;
}
RefOut RefClient::preferred() { return ask("P"); }
