// Workload generator: seed -> explicit plan (DESIGN.md 3.2, 3.5, section 4).
// Everything here is *workload*; no expectation about the library's results
// is produced here except the 'mustfail' class labels taken from the
// property statements.
#include <cmath>
#include <algorithm>
#include <cstdlib>
#include <cstring>
#include "engine.hh"

static const char *B64 = "./0123456789ABCDEFGHIJKLMNOPQRSTUVWXYZabcdefghijklmnopqrstuvwxyz";
static const size_t CDSZ = sizeof(struct crypt_data);

static std::string b64salt(Rng &g, size_t n) { std::string s; for (size_t i = 0; i < n; i++) s += B64[g.below(64)]; return s; }
static std::string enc30(unsigned v) { std::string s; for (int i = 0; i < 5; i++) { s += B64[v & 63]; v >>= 6; } return s; }
static std::string rnd_bytes(Rng &g, size_t n) { std::string s; for (size_t i = 0; i < n; i++) s += (char)g.below(256); return s; }

// phrases: any byte but NUL
static std::string mk_phrase(Rng &g, size_t len, int mode) {
  std::string s;
  for (size_t i = 0; i < len; i++) {
    unsigned c;
    if (mode == 0) c = 0x21 + (unsigned)g.below(0x5e);        // printable
    else c = 1 + (unsigned)g.below(255);                         // full 8-bit range
    s += (char)c;
  }
  return s;
}

// Settings with an enabled prefix whose parameters are certainly malformed by crypt(5)'s syntax (non-numeric or
// empty rounds, cost out of range or not two digits, truncated fields).  The statement names "malformed
// parameters" as a must-fail class; this list is what the harness knows of it independently of the library.
static const char *mal[][2] = {
      {"sha512crypt", "$6$rounds=abc$saltsalt"}, {"sha512crypt", "$6$rounds=$saltsalt"}, {"sha512crypt", "$6$rounds=1000"}, {"sha256crypt", "$5$rounds=0x10$ab"},
      {"sha256crypt", "$5$rounds=99999999999999999999$ab"}, {"bcrypt", "$2b$4$abcdefghijklmnopqrstuu"}, {"bcrypt", "$2b$99$abcdefghijklmnopqrstuu"},
      {"bcrypt", "$2b$04$short"}, {"bcrypt_a", "$2a$04"}, {"bcrypt_y", "$2y$0a$abcdefghijklmnopqrstuu"}, {"bcrypt_x", "$2x$"}, {"sha1crypt", "$sha1$$"}, {"sha1crypt", "$sha1$x1$salt$"}, {"sha1crypt", "$sha1"}, {"sunmd5", "$md5,rounds=x$salt$"}, {"sunmd5", "$md5x$salt$"}, {"sunmd5", "$md5,rounds=4294967296$salt$"}, {"md5crypt", "$1"}, {"nt", "$3"}, {"bsdicrypt", "_abc"}, {"bsdicrypt", "_....ab"},
      {"bsdicrypt", "_$$$$$$$$"}, {"yescrypt", "$y$"}, {"yescrypt", "$y$j9T"}, {"yescrypt", "$y$$$$"}, {"yescrypt", "$y$zzzzzzzzzzzzzzzz$abc$"},
      {"gost_yescrypt", "$gy$j"}, {"scrypt", "$7$"}, {"scrypt", "$7$C"}, {"scrypt", "$7$C6....."}, {"scrypt", "$7$zzzzzzzzzzzz$"},
      {"scrypt", "$7$/6..../....x"}};
bool is_curated_malformed(const std::string &s) { for (auto &m : mal) if (s == m[1]) return true; return false; }

struct SettingInfo { std::string m, s; int cost; };  // cost: 1 cheap .. 3 expensive
struct Pool {
  std::vector<std::string> phrases;       // < 512 bytes
  std::vector<std::string> secrets;       // high-entropy, >= 12 bytes (C09)
  std::vector<SettingInfo> valid;
  std::vector<std::pair<std::string, std::string>> malformed;  // (method, setting) with a valid prefix but certainly malformed parameters
  std::vector<std::pair<std::string, std::string>> odd;        // unusual spellings; no expectation
};

static const char *METHODS[] = {"yescrypt", "gost_yescrypt", "scrypt", "bcrypt", "bcrypt_y", "bcrypt_a", "bcrypt_x", "sha512crypt",
                                "sha256crypt", "sha1crypt", "sunmd5", "md5crypt", "nt", "bsdicrypt", "bigcrypt", "descrypt"};
static const char *PREFIX[] = {"$y$", "$gy$", "$7$", "$2b$", "$2y$", "$2a$", "$2x$", "$6$", "$5$", "$sha1", "$md5", "$1$", "$3$", "_", "", ""};
static const int COST[] = {3, 3, 2, 3, 3, 3, 3, 2, 2, 1, 3, 1, 1, 2, 1, 1};

static std::string ref_gensalt(const char *prefix, unsigned long count, const std::string &rb) {
  RefOut r = RefClient::get().gensalt(Bytes(std::string(prefix)), count, Bytes(rb), (int)rb.size(), CRYPT_GENSALT_OUTPUT_SIZE);
  if (r.bad) crash_exit("machinery", ("refsrv while building the input pool: " + r.raw).c_str());
  return r.ok ? r.str : std::string();
}

// One hand-spelt or gensalt-made setting of method index mi.
static bool g_last_cheap;
static std::string mk_setting(Rng &g, int mi) {
  g_last_cheap = false;
  switch (mi) {
    case 0: case 1: {  // yescrypt / gost-yescrypt
      if (g.chance(1, 2)) {
        // unusual parameters through the tree's own encoder: small N so that p > 1, t > 0, other r and flavours stay cheap
        static const unsigned flv[] = {0x0b6 /* RW defaults */, 0x0b6, 0x002 /* RW, minimal */, 0x001 /* WORM */, 0x0b6 | 0x004, 0x002 | 0x018};
        char buf[256]; std::string salt = rnd_bytes(g, g.chance(1, 4) ? 64 : g.chance(1, 2) ? (size_t)g.range(0, 64) : (size_t)g.range(0, 32));
        unsigned r = g.chance(1, 2) ? 8 : (unsigned)g.range(1, 4), p = (unsigned)g.range(1, 3), t = (unsigned)g.below(3);
        unsigned long long N = 1ull << g.range(p > 1 ? 6 : 2, g.chance(1, 10) ? 13 : 9);
        if (gen_yescrypt_setting(flv[g.below(6)], N, r, p, t, (const unsigned char *)salt.data(), salt.size(), buf, sizeof buf)) {
          std::string s = buf; if (mi == 1) s = "$gy$" + s.substr(3);
          if (g.chance(1, 4)) s += "$";
          g_last_cheap = true;
          return s;
        }
      }
      std::string s = ref_gensalt(PREFIX[mi], 1 + g.below(2), rnd_bytes(g, g.chance(1, 3) ? 16 + g.below(49) : 16 + g.below(17)));
      if (!s.empty() && g.chance(1, 4)) s += "$";
      return s;
    }
    case 2: {  // scrypt, hand-spelt: N=2^(6..10), r in {1,2,8}, p in {1,2}
      static const unsigned rs[] = {1, 1, 2, 8};
      std::string s = std::string("$7$") + B64[g.chance(1, 6) ? 1 + g.below(5) : 6 + g.below(5)] + enc30(rs[g.below(4)]) + enc30(1 + (unsigned)g.below(3)) + b64salt(g, g.chance(1, 3) ? (size_t)g.range(24, 86) : g.below(23));
      if (g.chance(1, 2)) s += "$";
      return s;
    }
    case 3: case 4: case 5: case 6: return ref_gensalt(PREFIX[mi], g.chance(1, 12) ? 6 + g.below(2) : 4 + (g.chance(1, 8) ? 1 : 0), rnd_bytes(g, 16));
    case 7: case 8: {
      std::string s = PREFIX[mi];
      if (g.chance(1, 2)) s += "rounds=" + std::to_string(g.chance(1, 6) ? g.range(1, 999) : g.chance(1, 8) ? g.range(1601, 12000) : g.range(1000, 1600)) + "$";
      s += b64salt(g, g.chance(1, 8) ? g.range(17, 24) : g.range(0, 16));
      if (g.chance(1, 2)) s += "$";
      return s;
    }
    case 9: return "$sha1$" + std::to_string(g.chance(1, 8) ? g.range(81, 6000) : g.range(1, 80)) + "$" + b64salt(g, (size_t)g.range(1, 64)) + (g.chance(3, 4) ? "$" : "");
    case 10: {
      std::string s = "$md5";
      if (g.chance(1, 2)) s += ",rounds=" + std::to_string(g.chance(1, 10) ? g.range(301, 9000) : g.range(1, 300));
      s += "$" + b64salt(g, (size_t)g.range(1, 16)) + "$";
      if (g.chance(1, 4)) s += "$";
      return s;
    }
    case 11: return "$1$" + b64salt(g, (size_t)g.range(0, 10)) + (g.chance(1, 2) ? "$" : "");
    case 12: return g.chance(1, 2) ? "$3$" : (g.chance(1, 2) ? "$3$$" : "$3$$8846f7eaee8fb117ad06bdd830b7586c");
    case 13: {
      if (g.chance(1, 2)) return ref_gensalt("_", 1 + 2 * g.below(40), rnd_bytes(g, 3));
      unsigned v = 1 + (unsigned)(g.chance(1, 8) ? g.below(30000) : g.below(200));   // (count 4096 and up is where a tree might switch tables)
      std::string s = "_"; for (int i = 0; i < 4; i++) { s += B64[v & 63]; v >>= 6; }
      return s + b64salt(g, 4);
    }
    case 14: return b64salt(g, 2) + b64salt(g, g.chance(1, 2) ? 11 : (size_t)g.range(12, 40));
    default: return b64salt(g, 2) + (g.chance(1, 3) ? b64salt(g, 11) : "");
  }
}

// Cost parameters in the range real deployments use: every method at the cost crypt_gensalt picks by default (count 0),
// and hand-spelt costs well above the everyday ranges of mk_setting.  A call then takes 10 ms .. 1 s, so this is drawn
// rarely, and never for the thread engine (whose instrumentation multiplies the cost).
static bool g_allow_heavy = false, g_tier_thorough = false;
// ... for the thread engine a lighter edition: parameters just past the everyday ranges (where a tree might switch to
// another code path: a fast loop, a bigger table), cheap enough for instrumented code
static std::string heavy_lite_setting(Rng &g, int *mi_out) {
  static const int his[] = {7, 8, 9, 9, 10, 13, 3, 0};
  int mi = his[g.below(8)]; *mi_out = mi;
  switch (mi) {
    case 0: { char buf[256]; std::string salt = rnd_bytes(g, 16); if (!gen_yescrypt_setting(0x0b6, 1ull << 12, 8, 1, 0, (const unsigned char *)salt.data(), salt.size(), buf, sizeof buf)) return std::string(); return std::string(buf) + "$"; }
    case 3: return ref_gensalt(PREFIX[3], 7, rnd_bytes(g, 16));
    case 7: case 8: return std::string(PREFIX[mi]) + "rounds=" + std::to_string(g.chance(1, 2) ? g.range(4990, 5010) : g.range(12001, 20000)) + "$" + b64salt(g, (size_t)g.range(1, 16)) + "$";
    case 9: { static const long edge[] = {8192, 16384, 20000}; return "$sha1$" + std::to_string(edge[g.below(3)] + g.range(-2, 2)) + "$" + b64salt(g, (size_t)g.range(1, 64)) + "$"; }
    case 10: return "$md5,rounds=" + std::to_string(g.range(9001, 14000)) + "$" + b64salt(g, (size_t)g.range(1, 16)) + "$";
    default: { unsigned v = (unsigned)g.range(30001, 70000); std::string s = "_"; for (int i = 0; i < 4; i++) { s += B64[v & 63]; v >>= 6; } return s + b64salt(g, 4); }
  }
}
static std::string heavy_setting(Rng &g, int *mi_out) {
  static const int his[] = {0, 1, 2, 3, 7, 8, 9, 9, 10, 13};
  int mi = his[g.below(10)]; *mi_out = mi;
  if (g.chance(1, 3)) {   // what crypt_gensalt (prefix, 0, ...) produces
    if (g.chance(1, 2)) { mi = (int)g.below(16); *mi_out = mi; }
    return ref_gensalt(PREFIX[mi], 0, rnd_bytes(g, 16 + g.below(17)));
  }
  switch (mi) {
    case 0: case 1: {
      char buf[256]; std::string salt = rnd_bytes(g, (size_t)g.range(8, 32));
      unsigned p = g.chance(1, 3) ? (unsigned)g.range(2, 4) : 1, t = g.chance(1, 3) ? (unsigned)g.range(1, 3) : 0;
      if (!gen_yescrypt_setting(g.chance(1, 4) ? 0x001 : 0x0b6, 1ull << g.range(13, p > 1 || t ? 13 : 15), 8, p, t, (const unsigned char *)salt.data(), salt.size(), buf, sizeof buf)) return std::string();
      std::string s = buf; if (mi == 1) s = "$gy$" + s.substr(3);
      return s + "$";
    }
    case 2: return std::string("$7$") + B64[g.range(11, 14)] + enc30(8) + enc30(g.chance(1, 3) ? (unsigned)g.range(2, 4) : 1) + b64salt(g, (size_t)g.range(4, 20)) + "$";
    case 3: { static const int bm[] = {3, 4, 5, 6}; int b = bm[g.below(4)]; *mi_out = b; return ref_gensalt(PREFIX[b], (unsigned long)(g.chance(1, 4) ? g.range(10, 12) : g.range(8, 9)), rnd_bytes(g, 16)); }
    case 7: case 8: {
      // values deployments use (glibc/libxcrypt default 5000, passlib 535000 / 656000, round numbers), powers of two +- 2
      // (where a tree might switch loops), and the rest log-uniform up to 1.2 million (about a second of native work)
      static const long pop[] = {5000, 10000, 50000, 100000, 500000, 535000, 656000, 1000000};
      // (thorough tier, one in 40: the ten-million region, where musl caps the parameter - about 5 s of native work)
      if (g_tier_thorough && g.chance(1, 40)) return std::string(PREFIX[mi]) + "rounds=" + std::to_string(9999990 + g.range(0, 2000000)) + "$" + b64salt(g, (size_t)g.range(1, 16)) + "$";
      long rn = g.chance(1, 3) ? pop[g.below(8)] + g.range(-3, 3) : g.chance(1, 3) ? (1L << g.range(13, 20)) + g.range(-2, 2) : (long)(12001.0 * pow(100.0, (double)g.below(1000) / 1000.0));
      return std::string(PREFIX[mi]) + "rounds=" + std::to_string(rn) + "$" + b64salt(g, (size_t)g.range(1, 16)) + "$";
    }
    case 9: {
      static const long edge[] = {8192, 16384, 32768, 65536, 131072, 196608, 262144};
      long it = g.chance(1, 2) ? edge[g.below(7)] + g.range(-2, 2) : g.chance(1, 4) ? (long)(300000.0 * pow(8.0, (double)g.below(1000) / 1000.0)) : g.range(6001, 300000);
      return "$sha1$" + std::to_string(it) + "$" + b64salt(g, (size_t)g.range(1, 64)) + "$";
    }
    case 10: return "$md5,rounds=" + std::to_string(g.chance(1, 4) ? (1L << g.range(14, 18)) + g.range(-2, 2) : g.range(9001, 60000)) + "$" + b64salt(g, (size_t)g.range(1, 16)) + "$";
    default: {
      unsigned v = g.chance(1, 4) ? (unsigned)((1L << g.range(16, 23)) + g.range(-2, 2)) : (unsigned)g.range(30001, 600000); std::string s = "_"; for (int i = 0; i < 4; i++) { s += B64[v & 63]; v >>= 6; }
      return s + b64salt(g, 4);
    }
  }
}

static Pool &pool_for(uint64_t poolseed) {
  static std::map<uint64_t, Pool> cache;
  auto it = cache.find(poolseed);
  if (it != cache.end()) return it->second;
  if (cache.size() > 8) cache.clear();
  Pool &p = cache[poolseed];
  Rng g(poolseed, "pool");
  static const size_t lens[] = {0, 1, 2, 7, 8, 9, 13, 14, 15, 16, 17, 24, 31, 32, 33, 55, 56, 63, 64, 65, 72, 73, 100, 119, 127, 128, 129, 200, 255, 256, 400, 511};
  for (int i = 0; i < 20; i++) p.phrases.push_back(mk_phrase(g, lens[g.below(sizeof lens / sizeof *lens)], (int)g.below(2)));
  p.phrases.push_back("");
  p.phrases.push_back(mk_phrase(g, 511, 1));
  for (int i = 0; i < 10; i++) p.secrets.push_back(mk_phrase(g, 12 + g.below(i < 7 ? 30 : 200), 1));
  p.secrets.push_back(mk_phrase(g, 65 + g.below(20), 1));   // longer than an HMAC block
  p.secrets.push_back(mk_phrase(g, 511, 1));
  // shorter than an 8-byte window (most real passwords for the DES-based methods are): searched for as a whole
  for (int i = 0; i < 3; i++) { std::string sh; while (sh.size() < (size_t)(6 + (i > 0))) { char ch = (char)(1 + g.below(255)); if (sh.find(ch) == std::string::npos) sh += ch; } p.secrets.push_back(sh); }
  for (int mi = 0; mi < 16; mi++)
    for (int k = 0; k < 4; k++) {
      std::string s = mk_setting(g, mi);
      if (!s.empty()) p.valid.push_back({METHODS[mi], s, g_last_cheap ? 2 : COST[mi]});
    }
  // settings that carry a trailing hash portion (re-hash form): a few cheap ones
  for (int k = 0; k < 6; k++) {
    const SettingInfo &si = p.valid[g.below(p.valid.size())];
    if (si.cost >= 3) continue;
    RefOut r = RefClient::get().hash(Bytes(p.phrases[g.below(p.phrases.size())]), Bytes(si.s));
    if (r.ok) p.valid.push_back({si.m, r.str, si.cost});
  }
  for (auto &m : mal) p.malformed.emplace_back(m[0], m[1]);
  // unusual spellings whose validity is the tree's business (the reference decides): kept out of the must-fail list
  static const char *odd[][2] = {{"sha1crypt", "$sha1$0$salt$"}, {"sunmd5", "$md5,"}, {"gost_yescrypt", "$gy$j9T$"}, {"yescrypt", "$y$j9T$"}, {"md5crypt", "$1$"}, {"sha512crypt", "$6$"}, {"sha256crypt", "$5$$"}};
  for (auto &m : odd) p.odd.emplace_back(m[0], m[1]);
  return p;
}

// A randomly edited setting may spell an enormous cost (rounds=15640000, bcrypt cost 24, yescrypt N = 2^40, a sha1crypt
// count with a minus sign, a bsdicrypt count of millions).  Cost is not what any check here decides, and such a call
// would only trip the watchdog; keep the edit only if every cost field it could have touched is still small.
static bool cheap_enough(const std::string &s, const std::string &orig) {
  auto num_after = [&](const char *key, unsigned long limit) {
    size_t p = s.find(key); if (p == std::string::npos) return true;
    p += strlen(key); if (p < s.size() && (s[p] == '-' || s[p] == '+')) return false;
    unsigned long v = 0; size_t n = 0;
    while (p < s.size() && s[p] >= '0' && s[p] <= '9' && n < 12) { v = v * 10 + (unsigned long)(s[p] - '0'); p++; n++; }
    return v <= limit && n < 12;
  };
  if (!num_after("rounds=", 20000)) return false;   // (sha*crypt and sunmd5)
  if (!s.compare(0, 6, "$sha1$") && !num_after("$sha1$", 3000)) return false;
  if (s.size() >= 6 && s[0] == '$' && s[1] == '2') { if (!(s[4] == '0' && s[5] >= '0' && s[5] <= '6')) return s[4] < '0' || s[4] > '9' || s[5] < '0' || s[5] > '9'; }
  if (!s.empty() && s[0] == '_') { unsigned long c = 0; for (int i = 0; i < 4 && (size_t)(1 + i) < s.size(); i++) { const char *q = strchr(B64, s[(size_t)(1 + i)]); if (!q) return true; c |= (unsigned long)(q - B64) << (6 * i); } if (c > 40000) return false; }
  // yescrypt family: the parameter field (up to the '$' that ends it) must be untouched
  for (const char *pf : {"$y$", "$gy$", "$7$"}) {
    size_t l = strlen(pf);
    if (!orig.compare(0, l, pf)) {
      size_t e = orig.find('$', l); if (e == std::string::npos) e = orig.size();
      if (pf[1] == '7') e = std::min(orig.size(), l + 11);
      if (s.compare(0, e, orig, 0, e) != 0) return false;
    }
  }
  return true;
}

// A yescrypt-family setting whose working region is 2^log2mib MiB (128 * r * N bytes).  Whether the simulated machine
// grants such a mapping is an environment choice of the plan (env.map_limit_mib): refused, the call costs nothing and
// still runs every line that decides by region size; granted, it is real work (64 MiB and up).
static std::string big_setting(Rng &g, int mi, int log2mib) {
  bool r32 = g.chance(1, 2); unsigned r = r32 ? 32 : 8; int nlog = log2mib + 20 - (r32 ? 12 : 10);
  if (mi == 2) return std::string("$7$") + B64[nlog] + enc30(r) + enc30(1) + b64salt(g, 8) + "$";
  char buf[256]; std::string salt = rnd_bytes(g, 16);
  if (!gen_yescrypt_setting(0x0b6, 1ull << nlog, r, 1, 0, (const unsigned char *)salt.data(), salt.size(), buf, sizeof buf)) return std::string();
  std::string s = buf; if (mi == 1) s = "$gy$" + s.substr(3);
  return s + "$";
}

// ---------------------------------------------------------------- request drawing
struct Req { Bytes ph, st; std::string m, cls; bool mustfail = false; };

static const SettingInfo &pick_valid(Rng &g, Pool &p, int maxcost) {
  for (int tries = 0; tries < 20; tries++) {
    const SettingInfo &si = p.valid[g.below(p.valid.size())];
    if (si.cost <= maxcost || g.chance(1, 6)) return si;
  }
  return p.valid[g.below(p.valid.size())];
}
static Req valid_req(Rng &g, Pool &p, bool secret, int maxcost) {
  Req r; const SettingInfo &si = pick_valid(g, p, maxcost);
  r.ph = Bytes(secret ? p.secrets[g.below(p.secrets.size())] : p.phrases[g.below(p.phrases.size())]);
  r.st = Bytes(si.s); r.m = si.m; r.cls = "valid";
  if (g.chance(1, 4)) {
    // a setting of its own for this plan (hand-spelt methods only: no reference round trip needed to make it)
    static const int fresh_mi[] = {2, 7, 8, 9, 11, 12, 13, 14, 15, 0, 1};
    int mi = fresh_mi[g.below(g.chance(1, 6) ? 11 : 9)];
    std::string s = mk_setting(g, mi);
    if (!s.empty()) { r.st = Bytes(s); r.m = METHODS[mi]; r.cls = "valid-fresh"; }
  }
  if (g_allow_heavy && maxcost >= 2 && g.chance(1, 60)) {
    int mi = 0; std::string s = heavy_setting(g, &mi);
    if (!s.empty()) { r.st = Bytes(s); r.m = METHODS[mi]; r.cls = "valid-heavy"; }
  }
  if (!secret && g.chance(1, 12)) r.ph = Bytes(mk_phrase(g, (size_t)g.range(0, 511), (int)g.below(2)));
  return r;
}
static Req invalid_req(Rng &g, Pool &p, bool secret) {
  Req r = valid_req(g, p, secret, 3);
  switch (g.below(16)) {
    case 0: r.ph = Bytes::Null(); r.cls = "null-phrase"; r.mustfail = true; break;
    case 1: r.st = Bytes::Null(); r.cls = "null-setting"; r.mustfail = true; break;
    case 2: r.ph = Bytes(mk_phrase(g, (size_t)g.range(512, 700), (int)g.below(2))); r.cls = "long-phrase"; r.mustfail = true; break;
    case 3: case 4: {  // forbidden byte somewhere in an otherwise valid setting
      static std::string forb;
      if (forb.empty()) { for (int c = 1; c <= 0x20; c++) forb += (char)c; for (int c = 0x7f; c < 0x100; c++) forb += (char)c; forb += ":;*!\\"; }
      std::string s = r.st.b; char c = forb[g.below(forb.size())];
      size_t pos = g.below(s.size() + 1);
      if (!s.empty() && g.chance(1, 2)) s[pos % s.size()] = c; else s.insert(pos, 1, c);
      r.st = Bytes(s); r.cls = "forbidden-byte"; r.mustfail = true; break;
    }
    case 5: {
      static const char *st[] = {"*0", "*1", "*", "*0abc", "*1$6$abc"};
      r.st = Bytes(std::string(st[g.below(5)])); r.cls = "star"; r.mustfail = true; r.m = "none"; break;
    }
    case 6: {
      static const char *up[] = {"$9$abcdefgh", "$zz$abc$", "$", "$$", "$2$04$abcdefghijklmnopqrstuu", "$2c$04$abcdefghijklmnopqrstuu", "$8$", "$4$salt$", "$argon2id$v=19$m=16,t=2,p=1$c2FsdA$", "$0",
                                 "$sha1crypt$24680$GGXpNqoJvglVTkGU$", "$sha1x$100$saltsaltsalt", "$sha1-old$4$ggu.H673kaZ5", "$sha12$5$salt$", "$sha1", "$md5x$salt$", "$md5crypt$salt$", "$md55$abcdefgh$", "$md5"};
      r.st = Bytes(std::string(up[g.below(19)])); r.cls = "unknown-prefix"; r.mustfail = true; r.m = "none";
      if (g.chance(1, 4)) {   // a valid sha1crypt / sunmd5 setting with letters wedged in behind the tag
        static const char *tail[] = {"crypt", "x", "-old", "2", "_", "SHA"};
        std::string v = g.chance(1, 2) ? "$sha1" + std::string(tail[g.below(6)]) + "$" + std::to_string(g.range(1, 80)) + "$" + b64salt(g, 8) + "$" : "$md5" + std::string(tail[g.below(6)]) + "$" + b64salt(g, 8) + "$";
        r.st = Bytes(v);
      }
      break;
    }
    case 8: {  // a numeric parameter field that is not a plain decimal number
      static const char *pfx[] = {"$6$rounds=", "$5$rounds=", "$md5,rounds=", "$2b$", "$2y$", "$2a$"};
      size_t k = g.below(6);
      std::string num = k < 3 ? std::to_string(g.range(1000, 9000)) : "05";
      switch (g.below(7)) {
        case 5: num = k < 3 ? std::to_string((1ULL << 32) * (unsigned long long)g.range(1, 9) + (unsigned long long)g.range(1000, 5000)) : "32"; break;   // wraps to something small in 32 bits
        case 6: num = k < 3 ? (g.chance(1, 2) ? "1844674407370955" + std::to_string(g.range(2616, 6616)) : "42949672960000" + std::to_string(g.range(1000, 5000))) : "99"; break;   // beyond 64 bits / far out of range
        case 0: num = "+" + num; break;
        case 1: num = "-" + num; break;
        case 2: num[g.below(num.size())] = "xa eO"[g.below(5)]; break;
        case 3: num += "x"; break;
        default: num = k < 3 ? "" : num.substr(0, 1); break;
      }
      std::string st = std::string(pfx[k]) + num + "$" + (k < 3 ? b64salt(g, 8) + "$" : std::string("abcdefghijklmnopqrstuu"));
      r.st = Bytes(st); r.m = k == 0 ? "sha512crypt" : k == 1 ? "sha256crypt" : k == 2 ? "sunmd5" : "bcrypt"; r.cls = "bad-number"; r.mustfail = true; break;
    }
    case 9: {  // one random edit of a valid setting with characters that pass the generic filter: reaches the
               // method-specific validation paths; whether the result is valid is the tree's business (the reference decides)
      std::string s = r.st.b; const std::string orig = s;
      static const char pool_chars[] = "$$$,=./0123456789ABCDEFGHIJKLMNOPQRSTUVWXYZabcdefghijklmnopqrstuvwxyz\"#%&'()+-<>?@[]^_`{|}~";
      int edits = (int)g.range(1, 2);
      for (int e = 0; e < edits && !s.empty(); e++) {
        size_t pos = g.below(s.size()); char c = pool_chars[g.below(sizeof pool_chars - 1)];
        std::string before = s;
        switch (g.below(4)) { case 0: s[pos] = c; break; case 1: s.insert(pos, 1, c); break; case 2: s.erase(pos, 1); break; default: s.insert(pos, 1, s[pos]); }
        if (!cheap_enough(s, orig)) s = before;
      }
      r.st = Bytes(s); r.cls = s == orig ? "valid" : "mutated"; break;
    }
    case 10: {  // memory parameters far beyond any machine: the mapping request is refused at once (by the simulated
                // machine and by the reference's real kernel alike), so these calls are cheap - and they are the only
                // way to reach code that is keyed on very large region sizes
      char buf[256]; std::string s;
      switch (g.below(3)) {
        // N stays below 2^32 and r*p below 2^30 (the algorithm's own limits); 128*r*N is what gets absurd (2^41..2^51 bytes)
        case 0: s = std::string("$7$") + B64[g.range(27, 31)] + enc30(1u << g.range(7, 13)) + enc30(1) + b64salt(g, 8) + "$"; r.m = "scrypt"; break;
        case 1: if (gen_yescrypt_setting(0x0b6, 1ull << g.range(27, 31), 1u << g.range(7, 13), 1, 0, (const unsigned char *)"absurdsalt123456", 16, buf, sizeof buf)) s = buf; r.m = "yescrypt"; break;
        default: if (gen_yescrypt_setting(0x0b6, 1ull << g.range(27, 31), 1u << g.range(7, 13), 1, 0, (const unsigned char *)"absurdsalt123456", 16, buf, sizeof buf)) { s = buf; s = "$gy$" + s.substr(3); } r.m = "gost_yescrypt"; break;
      }
      if (!s.empty()) { r.st = Bytes(s); r.cls = "absurd-memory"; }
      break;
    }
    case 11: {  // very long settings: a salt or tail far longer than any buffer the methods keep (whether that is
                // truncated, accepted or refused with ERANGE is the tree's business: the reference decides)
      static const size_t ln[] = {60, 100, 200, 300, 383, 384, 385, 400, 511, 512, 513, 700, 1023, 1024, 1025, 2000, 4095, 4096, 4097, 9000, 65535, 65536, 70000};
      size_t n = g.chance(2, 5) ? (size_t)g.range(290, 400) : ln[g.below(sizeof ln / sizeof *ln)];   // (around CRYPT_OUTPUT_SIZE: every length)
      static const char *hd[][2] = {{"sha512crypt", "$6$"}, {"sha256crypt", "$5$"}, {"sha512crypt", "$6$rounds=1000$"}, {"sha1crypt", "$sha1$5$"}, {"sunmd5", "$md5$"}, {"sunmd5", "$md5,rounds=3$"},
                                    {"md5crypt", "$1$"}, {"nt", "$3$$"}, {"bsdicrypt", "_1...abcd"}, {"descrypt", "ab"}, {"bigcrypt", "abcdefghijklm"}, {"scrypt", "$7$6/..../...."}, {"yescrypt", "$y$j75$"}, {"gost_yescrypt", "$gy$j75$"}, {"bcrypt", "$2b$04$abcdefghijklmnopqrstuu"}};
      size_t k = g.below(sizeof hd / sizeof *hd + 2);
      std::string s;
      if (k >= sizeof hd / sizeof *hd) s = r.st.b;   // any valid setting or full hash with a long tail
      else { s = hd[k][1]; r.m = hd[k][0]; }
      s += b64salt(g, n);
      if (g.chance(1, 3)) s += "$";
      if (g.chance(1, 4)) s += b64salt(g, 43);
      r.st = Bytes(s); r.cls = "long-setting"; break;
    }
    case 12: {  // 64 MiB .. 512 GiB of working memory: normally more than the simulated machine grants in one mapping
      int mi = (int)g.below(3); std::string s = big_setting(g, mi, (int)g.range(6, g.chance(1, 2) ? 9 : 19));
      if (!s.empty()) { r.st = Bytes(s); r.m = METHODS[mi]; r.cls = "big-memory"; }
      break;
    }
    case 7: {  // truncation of a valid setting (may still be valid: the reference decides)
      std::string s = r.st.b; if (!s.empty()) s.resize(g.below(s.size())); r.st = Bytes(s); r.cls = "truncated"; break;
    }
    default: {
      if (g.chance(1, 5)) { auto &m = p.odd[g.below(p.odd.size())]; r.st = Bytes(m.second); r.m = m.first; r.cls = "odd-spelling"; break; }
      auto &m = p.malformed[g.below(p.malformed.size())];
      r.st = Bytes(m.second); r.m = m.first; r.cls = "malformed"; r.mustfail = true; break;
    }
  }
  return r;
}
static void put_req(J &op, const Req &r) {
  op["ph"] = r.ph.to_json(); op["st"] = r.st.to_json(); op["m"] = r.m; op["cls"] = r.cls;
  if (r.mustfail) op["mustfail"] = r.cls;
}

static J mk_objs(Rng &g, int n) {
  J a = J::arr();
  for (int i = 0; i < n; i++) { J o = J::obj(); o["align"] = (long long)g.below(16); o["init"] = g.chance(1, 2) ? "zero" : "garbage"; o["gseed"] = (long long)g.below(1000000); if (g.chance(1, 10)) o["page"] = 1; a.push(o); }
  return a;
}
static const char *hash_kind(Rng &g, bool allow_static) {
  for (;;) { static const char *k[] = {"crypt", "crypt_r", "crypt_rn", "crypt_ra"}; const char *c = k[g.below(4)]; if (allow_static || strcmp(c, "crypt")) return c; }
}
static void place(Rng &g, J &op, int nobj, int nslots) {
  std::string k = op.str("k");
  if (k == "crypt_r" || k == "crypt_rn") op["obj"] = (long long)g.below((uint64_t)nobj);
  if (k == "crypt_ra") op["slot"] = (long long)g.below((uint64_t)nslots);
}
static void pre_scribble(Rng &g, J &op, unsigned pz, unsigned pg, unsigned pa) {
  unsigned x = (unsigned)g.below(100);
  if (x < pz) op["pre"] = "zero"; else if (x < pz + pg) op["pre"] = "garbage"; else if (x < pz + pg + pa) op["pre"] = "garbage-all";
  if (op.has("pre")) op["gseed"] = (long long)g.below(1000000);
}
static std::string hex64(Rng &g, int style) {
  // 64-byte bit vector; only the low bit of each byte counts, high bits are noise
  std::string v(64, '\0');
  if (style == 15) style = 18;   // (15 falls to the default arm below)
  if (style >= 10) {
    // highly structured values that uniform sampling would essentially never produce
    unsigned char k[8];
    switch (style) {
      case 10: { unsigned char b = (unsigned char)g.below(256); for (auto &x : k) x = b; break; }                       // one byte repeated
      case 11: { unsigned char a = (unsigned char)g.below(256), b = (unsigned char)g.below(256); for (int i = 0; i < 8; i++) k[i] = i & 1 ? a : b; break; }
      case 12: { for (int i = 0; i < 4; i++) { k[i] = (unsigned char)g.below(256); k[7 - i] = k[i]; } break; }             // palindrome
      case 13: { for (int i = 0; i < 4; i++) { k[i] = (unsigned char)g.below(256); k[4 + i] = (unsigned char)~k[i]; } break; } // halves complementary
      case 14: { for (int i = 0; i < 8; i++) k[i] = (unsigned char)(i * 0x11 + g.below(2)); break; }
      case 16: {  // as a key: C and D halves (after PC-1) with a short rotation period - the weak, semi-weak and "possibly weak" families and their kin
        static const uint32_t pat[] = {0x0000000, 0xfffffff, 0x5555555, 0xaaaaaaa, 0x3333333, 0x6666666, 0x9999999, 0xccccccc, 0x0f0f0f0, 0xf0f0f0f, 0x1249249, 0x2492492, 0x4924924, 0x0003fff, 0xfffc000, 0x0000001};
        des_key_from_cd(pat[g.below(16)], pat[g.below(16)], (unsigned)g.below(256), k); break;
      }
      case 17: {  // as a block: halves after the initial permutation equal, complementary, or one of them zero
        uint32_t l = (uint32_t)g.next(), r2 = g.chance(1, 2) ? l : g.chance(1, 2) ? ~l : 0; if (g.chance(1, 4)) { uint32_t t2 = l; l = r2; r2 = t2; }
        des_block_from_lr(l, r2, k); break;
      }
      default: { unsigned char b = (unsigned char)(g.chance(1, 2) ? 0x00 : 0xff); for (auto &x : k) x = b; k[g.below(8)] ^= (unsigned char)(1u << g.below(8)); k[g.below(8)] ^= (unsigned char)(1u << g.below(8)); break; }  // weight 0..2 / 62..64
    }
    static const unsigned char noises[] = {0x00, 0x80, 0xfe, 0x7e, 0x02, 0xaa};
    unsigned char nz = noises[g.below(6)]; bool rnd = g.chance(1, 3);
    for (int a = 0; a < 8; a++) for (int b = 0; b < 8; b++) v[(size_t)(a * 8 + b)] = (char)(((k[a] >> (7 - b)) & 1) | ((rnd ? g.below(128) << 1 : nz) & 0xfe));
    return hexenc(v);
  }
  if (style == 0) for (auto &c : v) c = (char)g.below(256);
  else if (style == 1) { size_t one = g.below(64); for (size_t i = 0; i < 64; i++) v[i] = (char)((i == one ? 1 : 0) | (g.below(128) << 1)); }          // weight 1
  else if (style == 2) { size_t zero = g.below(64); for (size_t i = 0; i < 64; i++) v[i] = (char)((i == zero ? 0 : 1) | (g.below(128) << 1)); }        // weight 63
  else {  // classic weak / semi-weak keys
    static const unsigned char wk[][8] = {{1, 1, 1, 1, 1, 1, 1, 1}, {0xfe, 0xfe, 0xfe, 0xfe, 0xfe, 0xfe, 0xfe, 0xfe}, {0x1f, 0x1f, 0x1f, 0x1f, 0x0e, 0x0e, 0x0e, 0x0e},
                                          {0xe0, 0xe0, 0xe0, 0xe0, 0xf1, 0xf1, 0xf1, 0xf1}, {0x01, 0xfe, 0x01, 0xfe, 0x01, 0xfe, 0x01, 0xfe}, {0, 0, 0, 0, 0, 0, 0, 0}, {0xff, 0xff, 0xff, 0xff, 0xff, 0xff, 0xff, 0xff}};
    const unsigned char *k = wk[g.below(7)];
    for (int a = 0; a < 8; a++) for (int b = 0; b < 8; b++) v[(size_t)(a * 8 + b)] = (char)(((k[a] >> (7 - b)) & 1) | (g.below(128) << 1));
  }
  return hexenc(v);
}
static J gensalt_op(Rng &g, bool allow_static, bool allow_auto, bool cheap_only) {
  J op = J::obj();
  static const char *ks[] = {"gensalt", "gensalt_rn", "gensalt_ra"};
  const char *k; do k = ks[g.below(3)]; while (!allow_static && !strcmp(k, "gensalt"));
  op["k"] = k;
  int mi = (int)g.below(17);
  if (mi == 16) op["pf"] = J(); else op["pf"] = Bytes(std::string(PREFIX[mi])).to_json();
  unsigned long count = 0;
  if (g.chance(1, 2) && mi < 16) {
    switch (mi) { case 0: case 1: count = 1 + g.below(3); break; case 2: count = 6 + g.below(2); break; case 3: case 4: case 5: case 6: count = 4 + g.below(3); break;
      case 7: case 8: count = 1000 + g.below(5000); break; case 9: count = 4 + g.below(500); break; case 10: count = g.below(70000); break; case 13: count = 1 + g.below(1000); break; default: count = g.below(3); }
    if (g.chance(1, 10)) count = 1ul << g.below(40);   // mostly out of range
    // calls whose result is never hashed can use the whole documented count range
    if (strcmp(k, "gensalt") && g.chance(1, 3))
      switch (mi) { case 0: case 1: count = 1 + g.below(11); break; case 2: count = 6 + g.below(6); break; case 3: case 4: case 5: case 6: count = 4 + g.below(28); break;
        case 7: case 8: count = g.chance(1, 2) ? 1000 + g.below(999998999ul) : 999999999ul - g.below(3); break; case 9: count = g.chance(1, 2) ? g.below(4294967295ul) : 4294967295ul - g.below(3); break;
        case 10: count = g.below(4294967295ul); break; case 13: count = 1 + g.below(16777215ul); break; default: break; }
  }
  if (!strcmp(k, "gensalt")) {
    // the static result may be handed straight to crypt() later in the history: keep it cheap to hash
    static const int cheap_mi[] = {0, 1, 3, 4, 5, 6, 7, 8, 9, 11, 12, 13, 14, 15};
    static const unsigned long cheap_count[] = {1, 1, 4, 4, 4, 4, 1000, 1000, 8, 0, 0, 1, 0, 0};
    size_t c = g.below(14); mi = cheap_mi[c]; count = cheap_count[c];
    if ((mi == 7 || mi == 8) && g.chance(1, 2)) count = 1000 + g.below(600);
    if (mi == 13) count = 1 + 2 * g.below(30);
    op["pf"] = Bytes(std::string(PREFIX[mi])).to_json();
  }
  op["count"] = (long long)count;
  if (allow_auto && g.chance(2, 5)) op["rb"] = J();
  else {
    // never an output_size in 3..191: that region hits defect F2 (an assert, C13's grid; DESIGN 3.5, 6).  Fewer than
    // 4 bytes (where F3 lives: a salt-less "$6$" for exactly 3) is generated: the result is the same in every context.
    size_t n = g.chance(1, 9) ? (size_t)g.below(4) : g.chance(1, 6) ? (size_t)g.range(4, 12) : g.chance(1, 5) ? (size_t)g.range(41, 255) : g.chance(1, 8) ? 64 : g.chance(1, 12) ? (size_t)g.range(256, 1200) : (size_t)g.range(16, 40);
    op["rb"] = Bytes(rnd_bytes(g, n)).to_json();
    if (n > 0 && g.chance(1, 12)) op["nrb"] = (long long)g.below(n + 1);   // the caller offers fewer bytes than the buffer holds (0 included)
  }
  (void)cheap_only;
  return op;
}

// ================================================================= per-property plans
static J base_plan(const std::string &prop, const char *variant, uint64_t seed, const std::string &tier, Rng &g) {
  J p = J::obj();
  p["property"] = prop; p["variant"] = variant; p["seed"] = (long long)seed; p["tier"] = tier;
  J env = J::obj(); env["fill_seed"] = (long long)(1 + g.below(1u << 30)); env["realloc_move"] = g.chance(2, 3); env["entropy_seed"] = (long long)(seed * 2654435761u + 17);
  { Rng le(seed, "locale"); if (le.chance(1, 8)) env["locale"] = le.chance(1, 2) ? "xx_XX.ISO-8859-1" : "C.UTF-8"; }
  { Rng sf(seed, "softfaults"); if (sf.chance(1, 4)) env["soft_fault_pct"] = (long long)(sf.chance(1, 2) ? 100 : 35); }   // a process where madvise/mlock/mprotect are refused (seccomp, rlimits)
  env["map_limit_mib"] = 48;   // the simulated machine refuses single mappings of 48 MiB and more (16 and 32 MiB shapes still run)
  p["env"] = env;
  p["tasks"] = J::arr();
  return p;
}

static J plan_c07(uint64_t seed, const std::string &tier, bool secrets, const std::string &prop) {
  Rng g(seed, "plan"); Pool &pool = pool_for(seed >> 6);
  J p = base_plan(prop, "asan", seed, tier, g);
  if (tier == "thorough" && prop == "C07" && seed % 40000 == 12345) {   // (fixed residue: five such plans in the thorough tier's 200000 seeds)
    // Cumulative work in one process (what a login daemon accumulates in an afternoon): 130-170 bcrypt hashes at cost 12
    // (2^19 .. 2^19.4 Eksblowfish rounds in total), the same request through all entry points over two objects, with the
    // application scribbling in between.  About a minute per pass; thorough tier only.
    J t = J::obj(); t["objs"] = mk_objs(g, 2); t["slots"] = 1; J ops = J::arr();
    std::string st = ref_gensalt("$2b$", 12, rnd_bytes(g, 16)); std::string ph = mk_phrase(g, (size_t)g.range(1, 40), 0);
    int n = (int)g.range(130, 170);
    for (int i = 0; i < n && !st.empty(); i++) {
      J op = J::obj(); op["k"] = hash_kind(g, true); place(g, op, 2, 1);
      op["ph"] = Bytes(ph).to_json(); op["st"] = Bytes(st).to_json(); op["m"] = "bcrypt"; op["cls"] = "valid-heavy";
      ops.push(op);
      if (g.chance(1, 10)) { J sc = J::obj(); sc["k"] = "scribble"; sc["obj"] = (long long)g.below(2); sc["what"] = g.chance(1, 2) ? "garbage" : "appfields"; sc["gseed"] = (long long)g.below(100000); ops.push(sc); }
    }
    t["ops"] = ops; p["tasks"].push(t);
    return p;
  }
  int nobj = 1 + (int)g.below(4), nslots = 1 + (int)g.below(2);
  J t = J::obj(); t["objs"] = mk_objs(g, nobj); t["slots"] = nslots;
  J ops = J::arr();
  int n = (int)g.range(3, tier == "thorough" ? 25 : 16);
  bool longrun = !secrets && g.chance(1, 120);      // rarely several hundred cheap calls: per-process counters, caches that fill up
  if (longrun) n = (int)g.range(260, 600);
  std::vector<Req> issued;
  bool have_gs = false;
  std::vector<int> keyed(nobj, 0); bool skeyed = false;
  for (int i = 0; i < n; i++) {
    unsigned x = (unsigned)g.below(100);
    J op = J::obj();
    if (x < 62) {
      Req r;
      if (!issued.empty() && g.chance(3, 10)) r = issued[g.below(issued.size())];           // same request again, later, elsewhere
      else if (!issued.empty() && g.chance(1, 4)) {
        // same method as the previous request, other parameters, back to back: what a cached parse would need
        const Req &prev = issued.back(); r = valid_req(g, pool, secrets, 3);
        for (int tries = 0; tries < 60 && (r.m != prev.m || r.st == prev.st); tries++) r = valid_req(g, pool, secrets, 3);
        if (g.chance(1, 2)) r.ph = prev.ph;
      }
      else if (g.chance(1, 4)) r = invalid_req(g, pool, secrets);
      else r = valid_req(g, pool, secrets, longrun ? 1 : 2);
      if (longrun && r.cls != "valid" && r.cls != "valid-fresh") r = valid_req(g, pool, secrets, 1);
      if (longrun) for (int tries = 0; tries < 50 && r.m != "md5crypt" && r.m != "nt" && r.m != "descrypt" && r.m != "bigcrypt"; tries++) { r = valid_req(g, pool, secrets, 1); }
      issued.push_back(r);
      op["k"] = hash_kind(g, true); place(g, op, nobj, nslots); put_req(op, r);
      pre_scribble(g, op, 15, 25, 10);
      if (g.chance(1, 3)) { static const long e0[] = {22, 34, 12, 4, 1234, 2, 11}; op["errno0"] = g.chance(1, 2) ? e0[g.below(7)] : g.range(1, 133); }   // errno is arbitrary at entry
      if (g.chance(1, 8)) op["guard"] = 1;        // arguments end exactly at a page boundary, next page inaccessible
      else if (g.chance(1, 8)) { static const char *adj[] = {"ph-before", "st-before", "ph-after", "st-after"}; op["adj"] = adj[g.below(4)]; }
      if (!secrets && g.chance(1, 12)) op["newthread"] = 1;   // the call is made from a thread that exists only for it (not in erasure plans: their stack scan needs the task stack)
      if (g.chance(15, 100)) op["phin"] = 1;
      else if (secrets && g.chance(1, 30)) op["phout"] = 1;   // (erasure plans only: the result of such a call is nobody's promise)
      if (g.chance(15, 100)) op["stin"] = 1;
      if (have_gs && g.chance(1, 4)) op["stsrc"] = "gs";
      else if (g.chance(1, 25)) op["stsrc"] = "out";
      if (op.str("k") == "crypt_rn" && g.chance(1, 12)) { static const long sz[] = {-5, 0, 1, 2, 3, 100, 384, 32767, 32769, 40000}; op["size"] = sz[g.below(10)]; op["gseed"] = (long long)g.below(1000); }
      if (op.str("k") == "crypt_r" || (op.str("k") == "crypt_rn" && !op.has("size"))) keyed[(size_t)op.i("obj")] = 0;
      if (op.has("pre") && op.has("obj")) keyed[(size_t)op.i("obj")] = 0;
    } else if (x < 77) {
      op = gensalt_op(g, true, true, true);
      if (op.str("k") == "gensalt") have_gs = true;
    } else if (x < 82) {
      op["k"] = "checksalt";
      Req r = g.chance(1, 2) ? valid_req(g, pool, false, 3) : invalid_req(g, pool, false);
      op["st"] = r.st.to_json();
    } else if (x < 84) op["k"] = "preferred";
    else if (x < 93) {
      // obsolete DES API between hashing calls; encrypt only right after a key is known
      if (g.chance(1, 2)) {
        if (!skeyed || g.chance(1, 2)) { op["k"] = "setkey"; op["key"] = hex64(g, (int)g.below(4)); skeyed = true; }
        else { op["k"] = "encrypt"; op["blk"] = hex64(g, (int)g.below(3)); op["flag"] = (long long)g.below(2); }
      } else {
        int o = (int)g.below((uint64_t)nobj);
        if (!keyed[(size_t)o] || g.chance(1, 2)) {
          op["k"] = "setkey_r"; op["obj"] = o; op["key"] = hex64(g, (int)g.below(4)); keyed[(size_t)o] = 1;
          if (g.chance(1, 2)) {
            // straight afterwards a DES-family hash on the very same object, short or empty phrase: the key schedule
            // setkey_r left in the scratch area is exactly the residue such a call could trip over
            ops.push(op); i++;
            Req r = valid_req(g, pool, secrets, 2);
            for (int tries = 0; tries < 40 && r.m != "descrypt" && r.m != "bigcrypt" && r.m != "bsdicrypt"; tries++) r = valid_req(g, pool, secrets, 2);
            if (!secrets) { static const char *shortp[] = {"", "", "a", "ab", "abcdefg", "abcdefgh", "abcdefghi"}; r.ph = Bytes(std::string(shortp[g.below(7)])); }
            op = J::obj(); op["k"] = g.chance(1, 2) ? "crypt_r" : "crypt_rn"; op["obj"] = o; put_req(op, r); issued.push_back(r); keyed[(size_t)o] = 0;
          }
        }
        else { op["k"] = "encrypt_r"; op["obj"] = o; op["blk"] = hex64(g, (int)g.below(3)); op["flag"] = (long long)g.below(2); }
      }
    } else if (x < 97) {
      op["k"] = "scribble"; op["obj"] = (long long)g.below((uint64_t)nobj); op["what"] = g.chance(1, 4) ? "appfields" : g.chance(1, 3) ? "zero" : "garbage"; op["gseed"] = (long long)g.below(100000);
      keyed[(size_t)op.i("obj")] = 0;
    } else {
      op["k"] = "slot_set"; op["slot"] = (long long)g.below((uint64_t)nslots);
      if (g.chance(1, 2)) { op["blk"] = -1; op["rec"] = 0; } else { long b = g.chance(1, 2) ? (long)CDSZ : (long)g.range(1, 4000); op["blk"] = b; op["rec"] = g.chance(1, 5) ? (long)-g.range(1, 100) : b; }
    }
    ops.push(op);
  }
  t["ops"] = ops; p["tasks"].push(t);
  return p;
}

static J plan_c05(uint64_t seed, const std::string &tier) {
  Rng g(seed, "plan"); Pool &pool = pool_for(seed >> 6);
  J p = base_plan("C05", "asan", seed, tier, g);
  int nobj = 1 + (int)g.below(3), nslots = 1;
  J t = J::obj(); t["objs"] = mk_objs(g, nobj); t["slots"] = nslots;
  J ops = J::arr();
  int n = (int)g.range(2, 12);
  for (int i = 0; i < n; i++) {
    J op = J::obj();
    // success first, then failures on the same object: the state a stale hash would come from
    bool want_fail = i > 0 && g.chance(13, 20);
    Req r = want_fail ? invalid_req(g, pool, false) : valid_req(g, pool, false, 2);
    op["k"] = hash_kind(g, true);
    if (want_fail && ops.a.size() && g.chance(4, 5)) {
      const J &prev = ops.a[g.below(ops.a.size())];
      op["k"] = prev.str("k");
      if (prev.has("obj")) op["obj"] = prev.at("obj");
      if (prev.has("slot")) op["slot"] = prev.at("slot");
    } else place(g, op, nobj, nslots);
    put_req(op, r);
    if (op.str("k") == "crypt_rn" && want_fail && g.chance(1, 4)) {
      static const long sz[] = {-1, 0, 1, 2, 3, 12, 13, 383, 384, 385, 32767, -2147483647 - 1, 1151, 1152, 2047};
      op["size"] = sz[g.below(15)]; op["gseed"] = (long long)g.below(1000); op["cls"] = "small-size"; op["mustfail"] = "small-size";
      Req v = valid_req(g, pool, false, 1); op["ph"] = v.ph.to_json(); op["st"] = v.st.to_json(); op["m"] = v.m;
    }
    pre_scribble(g, op, 5, 10, 5);
    if (i > 0 && g.chance(1, 12)) op["stsrc"] = "out";   // setting = the object's own output field, whatever the previous call left there
    ops.push(op);
  }
  t["ops"] = ops; p["tasks"].push(t);
  return p;
}

static J plan_c09(uint64_t seed, const std::string &tier) {
  Rng g(seed, "plan9"); Pool &pool = pool_for(seed >> 6);
  J p = plan_c07(seed, tier, true, "C09");
  // erasure-specific: scribble garbage before most calls (so "all zero" is distinguishable
  // from "untouched"), add primitive ops and auto-entropy gensalt calls
  J &ops = p["tasks"].a[0]["ops"];
  for (auto &op : ops.a) {
    std::string k = op.str("k");
    if ((k == "crypt_r" || k == "crypt_rn") && !op.has("pre") && g.chance(3, 4)) { op["pre"] = "garbage"; op["gseed"] = (long long)g.below(1000000); }
    // erasure must also hold on the paths an allocator/mapping failure takes
    if (op.has("ph") && g.chance(1, 10)) { J f = J::arr(); f.push((long long)g.range(1, 3)); op["faults"] = f; op["huge_ok"] = g.chance(1, 2); }
  }
  int extra = (int)g.range(1, 4);
  for (int i = 0; i < extra; i++) {
    J op = J::obj(); op["k"] = "prim"; int alg = (int)g.below(12); op["alg"] = alg;
    std::string sec = pool.secrets[g.below(pool.secrets.size())];
    bool keyed = alg == 6 || alg == 7 || alg == 8 || alg == 9 || alg == 10;
    if (keyed && g.chance(2, 3)) {
      if (alg == 9) { sec = mk_phrase(g, (size_t)g.range(32, 64), 1); }
      op["key"] = Bytes(sec).to_json(); op["msg"] = Bytes(rnd_bytes(g, (size_t)g.range(1, 100))).to_json(); op["secret"] = "key";
    } else {
      op["msg"] = Bytes(sec).to_json(); op["key"] = Bytes(alg == 9 ? mk_phrase(g, 32, 1) : rnd_bytes(g, (size_t)g.range(1, 80))).to_json(); op["secret"] = "msg";
    }
    ops.a.insert(ops.a.begin() + (long)g.below(ops.a.size() + 1), op);
  }
  return p;
}

static J plan_c12(uint64_t seed, const std::string &tier) {
  Rng g(seed, "plan");
  J p = base_plan("C12", "asan", seed, tier, g);
  J t = J::obj(); t["objs"] = J::arr(); t["slots"] = 0;
  J ops = J::arr();
  int groups = (int)g.range(1, 3);
  for (int gi = 0; gi < groups; gi++) {
    int mi = (int)g.below(17); unsigned long count = g.chance(3, 4) ? 0 : (mi == 7 || mi == 8 ? 5000 : mi <= 1 ? 2 : mi >= 3 && mi <= 6 ? 5 : mi == 2 ? 6 : mi == 13 ? 7 : 0);
    int reps = (int)g.range(1, g.chance(1, 200) ? 600 : g.chance(1, 10) ? 40 : 6);   // rarely a very long run: per-process counters, reservoirs
    // ... and very rarely a process that lives for tens of thousands of calls (a counter that wraps, a reservoir that
    // runs dry): beyond the first 40 calls only what needs no reference is checked (a draw in every successful call)
    bool marathon = gi == 0 && g.chance(1, 1500);
    if (marathon) reps = (int)(1000.0 * pow(30.0, (double)g.below(1000) / 1000.0));
    for (int i = 0; i < reps; i++) {
      J op = J::obj(); static const char *ks[] = {"gensalt", "gensalt_rn", "gensalt_ra"};
      op["k"] = ks[g.below(3)];
      if (marathon && i >= 40) { op["noref"] = 1; op["k"] = "gensalt_rn"; }
      if (mi == 16) op["pf"] = J(); else op["pf"] = Bytes(std::string(PREFIX[mi])).to_json();
      op["count"] = (long long)count; op["rb"] = J(); op["nrb"] = g.chance(1, 4) ? (long long)g.below(64) : 0;   // nrbytes is ignored when rbytes is NULL
      ops.push(op);
      if (g.chance(1, 6)) { J fr = J::obj(); fr["k"] = "free_results"; ops.push(fr); }
      if (g.chance(1, 8)) { J e = gensalt_op(g, true, false, true); ops.push(e); }  // explicit-rbytes call in between
    }
  }
  t["ops"] = ops; p["tasks"].push(t);
  return p;
}

static J plan_c14(uint64_t seed, const std::string &tier) {
  Rng g(seed, "plan"); Pool &pool = pool_for(seed >> 6);
  J p = base_plan("C14", "asan", seed, tier, g);
  int nslots = 1 + (int)g.below(3);
  J t = J::obj(); t["objs"] = J::arr(); t["slots"] = nslots;
  J ops = J::arr();
  int n = (int)g.range(2, 15);
  for (int i = 0; i < n; i++) {
    unsigned x = (unsigned)g.below(100); J op = J::obj();
    if (x < 25 || i == 0) {
      op["k"] = "slot_set"; op["slot"] = (long long)g.below((uint64_t)nslots);
      switch (g.below(6)) {
        case 0: op["blk"] = -1; op["rec"] = g.chance(1, 4) ? (g.chance(1, 2) ? (long)CDSZ : g.range(1, 50000)) : 0; break;   // NULL, sometimes with a stale size (free(p); p = NULL;)
        case 1: op["blk"] = (long)CDSZ; op["rec"] = (long)CDSZ; break;
        case 2: { long b = (long)CDSZ + g.range(1, 5000); op["blk"] = b; op["rec"] = g.chance(1, 2) ? b : (long)CDSZ; break; }
        case 3: { long b = g.range(1, (long)CDSZ - 1); op["blk"] = b; op["rec"] = g.chance(3, 4) ? b : g.range(1, b); break; }
        case 4: {
          long b = g.chance(1, 2) ? (long)CDSZ : g.range(1, 3000); op["blk"] = b;
          static const long neg[] = {-1, -2, -32767, -32768, -32769, -65536, -2147483647L - 1, -2147483647L, -2147483647L - 1 + 32767, -2147483647L - 1 + 32768, -2147450880L, -1073741824L};
          op["rec"] = g.chance(1, 3) ? 0 : g.chance(1, 2) ? -g.range(1, 40000) : neg[g.below(12)]; break;
        }
        default: { long b = g.range(1, 64); op["blk"] = b; op["rec"] = b; break; }
      }
      if (g.chance(1, 12)) { static const long edge[] = {(long)CDSZ - 1, (long)CDSZ + 1, (long)CDSZ - 2, 1, 2, 3}; long b = edge[g.below(6)]; op["blk"] = b; op["rec"] = g.chance(1, 4) ? b - 1 : b; }
      // blocks far larger than the structure (old glibc's struct crypt_data had 131232 bytes; multiples of sizeof; a megabyte)
      if (g.chance(1, 10)) { static const long big[] = {2 * (long)CDSZ, 2 * (long)CDSZ + 1, 65536, 4 * (long)CDSZ - 1, 4 * (long)CDSZ, 4 * (long)CDSZ + 1, 131232, 8 * (long)CDSZ, 1048576, 1048577, 16777216}; long b = big[g.below(11)]; op["blk"] = b; op["rec"] = g.chance(3, 4) ? b : g.chance(1, 2) ? (long)CDSZ : b - (long)g.range(1, 4096); }
      // what the caller's block holds before the library sees it
      static const char *fills[] = {"dirty", "dirty", "zero", "star", "hashlike", "ones"};
      op["fill"] = fills[g.below(6)];
    } else if (x < 75) {
      Req r = g.chance(2, 5) ? invalid_req(g, pool, false) : valid_req(g, pool, false, 2);
      op["k"] = "crypt_ra"; op["slot"] = (long long)g.below((uint64_t)nslots); put_req(op, r);
    } else if (x < 95) {
      op = gensalt_op(g, false, true, true); op["k"] = "gensalt_ra";
      if (g.chance(1, 4)) { op["pf"] = Bytes(std::string(g.chance(1, 2) ? "$9$" : "*0")).to_json(); }
      if (g.chance(1, 6)) { op["rb"] = Bytes(rnd_bytes(g, 4)).to_json(); op["nrb"] = 4; op["pf"] = Bytes(std::string("$y$")).to_json(); }   // too few bytes for yescrypt -> EINVAL
      // the caller that read a page (or more) from /dev/urandom and hands over all of it: "surplus bytes are ignored".
      // Own random stream, so that every other choice of the plan stays what it was (held-out seeded change C14-r9).
      { Rng pg(seed ^ (0x9e3779b97f4aULL * (uint64_t)(ops.a.size() + 1)), "pagebuf");
        if (pg.chance(1, 8)) {
          size_t n = pg.chance(1, 3) ? 4096 : pg.chance(1, 2) ? (size_t)pg.range(2200, 2400) : (size_t)pg.range(1201, 9000);
          op["rb"] = Bytes(rnd_bytes(pg, n)).to_json(); op["nrb"] = (long long)n;
          if (pg.chance(1, 2)) { op["pf"] = Bytes(std::string(pg.chance(1, 2) ? "$sha1" : "$sha1$")).to_json(); op["count"] = 0; }
        } }
    } else op["k"] = "free_results";
    ops.push(op);
  }
  t["ops"] = ops; p["tasks"].push(t);
  return p;
}

static int des_style(Rng &g, int plain) { return g.chance(1, 4) ? 10 + (int)g.below(8) : (int)g.below((uint64_t)plain); }
static J plan_c17(uint64_t seed, const std::string &tier) {
  Rng g(seed, "plan"); Pool &pool = pool_for(seed >> 6);
  J p = base_plan("C17", "asan", seed, tier, g);
  int nobj = 1 + (int)g.below(3);
  J t = J::obj(); t["objs"] = mk_objs(g, nobj); t["slots"] = 1;
  J ops = J::arr();
  int n = (int)g.range(3, g.chance(1, 150) ? 700 : g.chance(1, 8) ? 70 : 30);   // rarely a very long history (counters, caches that fill up)
  bool skeyed = false; std::vector<int> keyed((size_t)nobj, 0);
  std::string lastkey, lastblk, lastphrase;
  // the packed 8-byte form of a 64-byte key vector, and back (noise-free): lets the same key travel between
  // des_set_key, setkey and setkey_r, and lets a key be what crypt(3) derives from a passphrase block (c << 1)
  auto pack8 = [](const std::string &hex) { std::string v, o(8, '\0'); hexdec(hex, v); v.resize(64); for (int a = 0; a < 8; a++) { unsigned c = 0; for (int b2 = 0; b2 < 8; b2++) c = (c << 1) | ((unsigned char)v[(size_t)(a * 8 + b2)] & 1); o[(size_t)a] = (char)c; } return o; };
  auto unpack8 = [](const std::string &k8) { std::string v(64, '\0'); for (int a = 0; a < 8; a++) for (int b2 = 0; b2 < 8; b2++) v[(size_t)(a * 8 + b2)] = (char)(((unsigned char)k8[(size_t)a] >> (7 - b2)) & 1); return hexenc(v); };
  auto phrase_key = [&](Rng &gg) { std::string k8(8, '\0'); size_t blocks = (lastphrase.size() + 7) / 8; size_t off = blocks ? 8 * gg.below(blocks) : 0; for (size_t q = 0; q < 8 && off + q < lastphrase.size(); q++) k8[q] = (char)((unsigned char)lastphrase[off + q] << 1); return k8; };
  for (int i = 0; i < n; i++) {
    unsigned x = (unsigned)g.below(100); J op = J::obj();
    if (x < 18) {
      op["k"] = "setkey"; std::string k = hex64(g, des_style(g, 4));
      if (!lastkey.empty() && g.chance(1, 4)) {   // same key, parity bits flipped, noise bits redrawn
        std::string raw; hexdec(lastkey, raw); for (size_t b = 7; b < 64; b += 8) raw[b] ^= 1; for (auto &c : raw) c = (char)((c & 1) | (g.below(128) << 1)); k = hexenc(raw);
      }
      if (!lastphrase.empty() && g.chance(1, 5)) k = unpack8(phrase_key(g));   // the key crypt(3) derives from a block of an earlier phrase
      op["key"] = k; lastkey = k; skeyed = true;
      if (!lastblk.empty() && g.chance(1, 6)) { op["keychain"] = (long long)g.range(1, 2); op["keynoise"] = (long long)g.below(256); lastkey.clear(); }   // key := previous output / input
    } else if (x < 45 && skeyed) {
      op["k"] = "encrypt"; std::string b = hex64(g, des_style(g, 3));
      if (!lastblk.empty() && g.chance(1, 3)) { std::string raw; hexdec(lastblk, raw); for (auto &c : raw) c = (char)((c & 1) | (g.below(128) << 1)); b = hexenc(raw); }
      else if (!lastkey.empty() && g.chance(1, 8)) b = lastkey;   // block equal to the key
      op["blk"] = b; lastblk = b; { static const long long odd[] = {256, 65536, -1, -2147483647LL - 1, 2147483647, 2, 255, 128};
        op["flag"] = g.chance(1, 3) ? (long long)g.below(2) : g.chance(1, 2) ? 0 : g.chance(1, 3) ? odd[g.below(8)] : (long long)g.range(1, 255); }
      if (g.chance(1, 6)) op["chain"] = 1;   // the block is the previous encrypt's output
    } else if (x < 58) {
      int o = (int)g.below((uint64_t)nobj); op["k"] = "setkey_r"; op["obj"] = o; op["key"] = (!lastkey.empty() && g.chance(1, 2)) ? lastkey : hex64(g, des_style(g, 4)); keyed[(size_t)o] = 1;
      if (!lastblk.empty() && g.chance(1, 6)) { op["keychain"] = (long long)g.range(1, 2); op["keynoise"] = (long long)g.below(256); }
    } else if (x < 75) {
      int o = (int)g.below((uint64_t)nobj);
      if (!keyed[(size_t)o]) { op["k"] = "setkey_r"; op["obj"] = o; op["key"] = hex64(g, 0); keyed[(size_t)o] = 1; }
      else if (g.chance(1, 6)) { op["k"] = "scribble"; op["obj"] = o; op["what"] = "appfields"; op["gseed"] = (long long)g.below(100000); }   // the application uses the fields that are its own; the key stays
      else { op["k"] = "encrypt_r"; op["obj"] = o; op["blk"] = (!lastblk.empty() && g.chance(1, 2)) ? lastblk : hex64(g, des_style(g, 3)); op["flag"] = (long long)g.below(2); }
    } else if (x < 83) {
      op["k"] = "des_block"; op["key"] = hexenc(rnd_bytes(g, 8)); op["blk"] = hexenc(rnd_bytes(g, 8)); op["flag"] = (long long)g.below(2); op["gseed"] = (long long)g.below(1000);
      if (!lastkey.empty() && g.chance(1, 3)) op["key"] = hexenc(pack8(lastkey));          // the key the obsolete API used a moment ago
      else if (g.chance(1, 3)) { lastkey = unpack8(rnd_bytes(g, 8)); op["key"] = hexenc(pack8(lastkey)); }   // ... or will use next
    } else if (x < 95) {
      // hashing traffic, DES-based methods preferred: the static key must survive it
      Req r = valid_req(g, pool, false, 2);
      if (g.chance(1, 2)) for (int tries = 0; tries < 30 && r.m != "descrypt" && r.m != "bigcrypt" && r.m != "bsdicrypt"; tries++) r = valid_req(g, pool, false, 2);
      if (g.chance(1, 4)) {
        // salt 0: the salted, iterated block function is then plain DES applied count times to the zero block, which
        // the model can say (phrases of at most 8 bytes: the key is the phrase shifted left by one, no folding)
        r.ph = Bytes(mk_phrase(g, (size_t)g.below(9), (int)g.below(2))); r.cls = "valid-fresh";
        if (g.chance(1, 2)) { r.st = Bytes(std::string("..") + (g.chance(1, 2) ? b64salt(g, 11) : "")); r.m = "descrypt"; }
        else { unsigned v = (unsigned)g.range(1, 60); std::string s = "_"; for (int q = 0; q < 4; q++) { s += B64[v & 63]; v >>= 6; } r.st = Bytes(s + "...."); r.m = "bsdicrypt"; }
      }
      op["k"] = hash_kind(g, true); place(g, op, nobj, 1); put_req(op, r);
      if (!r.ph.null) lastphrase = r.ph.b;
      if (op.has("obj")) keyed[(size_t)op.i("obj")] = 0;
    } else { op = gensalt_op(g, true, true, true); }
    if (g.chance(1, 4)) op["errno0"] = g.range(1, 133);
    if (g.chance(1, 6)) op["newthread"] = 1;   // e.g. main sets the key, a worker encrypts: the static key is per process, not per thread
    ops.push(op);
  }
  t["ops"] = ops; p["tasks"].push(t);
  return p;
}

// C15 random fault histories (the exhaustive single/pair enumeration lives in bin/check + --gen-corpus)
static J plan_c15(uint64_t seed, const std::string &tier) {
  Rng g(seed, "plan"); Pool &pool = pool_for(seed >> 6);
  J p = base_plan("C15", "asan", seed, tier, g);
  int nobj = 1 + (int)g.below(2), nslots = 1 + (int)g.below(2);
  J t = J::obj(); t["objs"] = mk_objs(g, nobj); t["slots"] = nslots;
  J ops = J::arr();
  int n = (int)g.range(2, 10);
  for (int i = 0; i < n; i++) {
    J op = J::obj(); unsigned x = (unsigned)g.below(100);
    if (x < 70) {
      Req r = g.chance(1, 6) ? invalid_req(g, pool, false) : valid_req(g, pool, false, 2);
      // bias to the methods that map memory
      if (g.chance(1, 2)) for (int tries = 0; tries < 30 && r.m != "yescrypt" && r.m != "gost_yescrypt" && r.m != "scrypt"; tries++) r = valid_req(g, pool, false, 3);
      op["k"] = hash_kind(g, true); place(g, op, nobj, nslots); put_req(op, r);
      if (g.chance(1, 4)) { op["pre"] = "garbage"; op["gseed"] = (long long)g.below(100000); }
      if (g.chance(1, 3)) { static const long e0[] = {22, 34, 12, 4, 1234, 2, 11}; op["errno0"] = g.chance(1, 2) ? e0[g.below(7)] : g.range(1, 133); }
    } else if (x < 85) { op = gensalt_op(g, false, true, true); op["k"] = "gensalt_ra"; if (g.chance(1, 3)) op["errno0"] = 12; }
    else if (x < 95) { op["k"] = "slot_set"; op["slot"] = (long long)g.below((uint64_t)nslots); if (g.chance(1, 2)) { op["blk"] = -1; op["rec"] = 0; } else { long b = g.range(1, 2000); op["blk"] = b; op["rec"] = g.chance(1, 4) ? 0 : b; } }
    else op["k"] = "free_results";
    if (op.has("ph") || op.str("k") == "gensalt_ra") {
      if (g.chance(3, 5)) { J f = J::arr(); f.push((long long)g.range(1, 3)); if (g.chance(1, 4)) f.push((long long)g.range(2, 4)); op["faults"] = f; }
      op["huge_ok"] = g.chance(1, 2);
    }
    ops.push(op);
    // right after a faulted call: the same call again, fault-free (bounded recovery: one call)
    if (op.has("faults") && g.chance(1, 3)) {
      // ... or first a request that fails while being parsed, entered with whatever errno the faulted call left
      Req bad = invalid_req(g, pool, false);
      for (int tries = 0; tries < 20 && bad.cls != "malformed" && bad.cls != "mutated" && bad.cls != "truncated" && bad.cls != "bad-number"; tries++) bad = invalid_req(g, pool, false);
      J nb = J::obj(); nb["k"] = hash_kind(g, true); place(g, nb, nobj, nslots); put_req(nb, bad); nb["errno_keep"] = 1; ops.push(nb); continue;
    }
    if (op.has("faults") && g.chance(3, 4)) { J again = op; again.o.erase(std::remove_if(again.o.begin(), again.o.end(), [](const std::pair<std::string, J> &kv) { return kv.first == "faults"; }), again.o.end()); again["errno_keep"] = 1; ops.push(again); }
  }
  t["ops"] = ops; p["tasks"].push(t);
  return p;
}

// C15 corpus: item index -> base plan (fault-free); bin/check adds the fault positions
J c15_corpus_item(long idx, long *total) {
  Pool &pool = pool_for(0);
  struct Item { J setup; J op; };
  static std::vector<Item> items;
  if (items.empty()) {
    Rng g(15, "corpus");
    const std::string phrase = "correct horse battery staple";
    auto slot0 = [](long blk, long rec) { J s = J::obj(); s["k"] = "slot_set"; s["slot"] = 0; s["blk"] = blk; s["rec"] = rec; return s; };
    for (int mi = 0; mi < 16; mi++) {
      std::string st; for (auto &v : pool.valid) if (v.m == METHODS[mi]) { st = v.s; break; }
      if (st.empty()) continue;
      std::vector<std::string> settings{st};
      if (mi <= 1) { std::string big = ref_gensalt(PREFIX[mi], 6, std::string(16, 'S')); if (!big.empty()) settings.push_back(big); }   // 32 MiB: huge-page path
      std::vector<std::string> extra;   // parameter shapes that change the allocation sequence; crypt_ra from (NULL,0) only
      if (mi <= 1) {
        std::string mid = ref_gensalt(PREFIX[mi], 5, std::string(16, 'M')); if (!mid.empty()) extra.push_back(mid);                       // 16 MiB: pre-hash pass, below the huge-page threshold
        char buf[256]; static const unsigned fl[] = {0x0b6, 0x0b6, 0x002, 0x001};
        static const unsigned pp[] = {2, 3, 2, 2}, tt[] = {0, 1, 0, 0}; static const unsigned long long nn[] = {256, 64, 512, 128};
        for (int v = 0; v < 4; v++) if (gen_yescrypt_setting(fl[v], nn[v], 8, pp[v], tt[v], (const unsigned char *)"corpus-salt-0123", 16, buf, sizeof buf)) { std::string e = buf; if (mi == 1) e = "$gy$" + e.substr(3); extra.push_back(e); }
      }
      if (mi == 2) { extra.push_back(std::string("$7$") + B64[8] + enc30(4) + enc30(3) + "p3salt$"); extra.push_back(std::string("$7$") + B64[14] + enc30(8) + enc30(2) + "16MiBp2$"); }
      if (mi == 2) settings.push_back(std::string("$7$") + B64[15] + enc30(8) + enc30(1) + "hugepagesalt$");                               // N=2^15 r=8: 32 MiB
      if (mi <= 2) { Rng gb(64 + (uint64_t)mi, "corpus-big"); std::string b = big_setting(gb, mi, 6); if (!b.empty()) settings.push_back(b); }   // 64 MiB: what crypt_gensalt("$7$", 0) and yescrypt cost 7 ask for
      if (mi == 0) { Rng gb(128, "corpus-big"); std::string b = big_setting(gb, mi, 7); if (!b.empty()) settings.push_back(b); }               // 128 MiB
      for (size_t si = 0; si < settings.size(); si++) {
        for (int e = 0; e < 5; e++) {
          for (int huge = 0; huge < (si ? 2 : 1); huge++) {
            Item it; it.setup = J::arr(); J op = J::obj();
            static const char *ek[] = {"crypt_ra", "crypt_ra", "crypt_rn", "crypt_r", "crypt"};
            op["k"] = ek[e]; op["ph"] = Bytes(phrase).to_json(); op["st"] = Bytes(settings[si]).to_json(); op["m"] = METHODS[mi]; op["cls"] = "valid";
            if (e == 0) { it.setup.push(slot0(-1, 0)); op["slot"] = 0; }
            if (e == 1) { it.setup.push(slot0(100, 100)); op["slot"] = 0; }
            if (e == 2 || e == 3) op["obj"] = 0;
            op["huge_ok"] = huge;
            if (si && e >= 2 && huge) continue;   // the large cases: all entry points once, huge-page variants for crypt_ra only
            it.op = op; items.push_back(it);
          }
        }
      }
      for (auto &es : extra) {
        Item it; it.setup = J::arr(); it.setup.push(slot0(-1, 0)); J op = J::obj(); op["k"] = "crypt_ra"; op["slot"] = 0; op["ph"] = Bytes(phrase).to_json(); op["st"] = Bytes(es).to_json(); op["m"] = METHODS[mi]; op["cls"] = "valid-shape"; op["huge_ok"] = 0;
        it.op = op; items.push_back(it);
      }
      if (mi == 0 || mi == 11)   // other starting states of the (*data,*size) pair: one mapping method, one plain one
        for (int v = 0; v < 5; v++) {
          static const long blk[] = {100, 100, 32767, 40000, 1}, rec[] = {0, -5, 32767, 32768, 1};
          Item it; it.setup = J::arr(); it.setup.push(slot0(blk[v], rec[v])); J op = J::obj(); op["k"] = "crypt_ra"; op["slot"] = 0; op["ph"] = Bytes(phrase).to_json(); op["st"] = Bytes(st).to_json(); op["m"] = METHODS[mi]; op["cls"] = "valid"; op["huge_ok"] = 0;
          it.op = op; items.push_back(it);
        }
      // one failing request per method
      for (auto &m : pool.malformed) if (m.first == METHODS[mi]) {
        Item it; it.setup = J::arr(); it.setup.push(slot0(-1, 0)); J op = J::obj(); op["k"] = "crypt_ra"; op["slot"] = 0; op["ph"] = Bytes(phrase).to_json(); op["st"] = Bytes(m.second).to_json(); op["m"] = m.first; op["cls"] = "malformed";
        it.op = op; items.push_back(it); break;
      }
    }
    // regions of 1 GiB and more, really used (about 1.5 s of native work per GiB): sizes at which a tree might switch to
    // 1 GiB pages, or at which a length no longer fits an int (2 GiB) or 32 bits (4 GiB).  The last two: thorough tier only.
    for (int l2 = 10; l2 <= 12; l2++)
      for (int huge = 0; huge < 2; huge++) {
        Rng gb(1000 + (uint64_t)l2, "corpus-big"); std::string b = big_setting(gb, 0, l2); if (b.empty()) continue;
        Item it; it.setup = J::arr(); it.setup.push(slot0(-1, 0)); J op = J::obj(); op["k"] = "crypt_ra"; op["slot"] = 0; op["ph"] = Bytes(phrase).to_json(); op["st"] = Bytes(b).to_json(); op["m"] = "yescrypt"; op["cls"] = "valid-big";
        op["huge_ok"] = huge; op["gib"] = (long long)(1 << (l2 - 10));
        it.op = op; items.push_back(it);
      }
    for (int mi = 0; mi < 17; mi++) {
      Item it; it.setup = J::arr(); J op = J::obj(); op["k"] = "gensalt_ra"; if (mi == 16) op["pf"] = J(); else op["pf"] = Bytes(std::string(PREFIX[mi])).to_json();
      op["count"] = 0; if (mi % 2) op["rb"] = J(); else op["rb"] = Bytes(std::string(32, 'R')).to_json();
      it.op = op; items.push_back(it);
    }
  }
  if (total) *total = (long)items.size();
  if (idx < 0 || idx >= (long)items.size()) return J();
  Rng g((uint64_t)idx, "corpusplan");
  J p = base_plan("C15", "asan", (uint64_t)idx, "corpus", g);
  p["env"]["map_limit_mib"] = 300;
  if (items[(size_t)idx].op.has("gib")) { p["env"]["map_limit_mib"] = 0; p["big"] = items[(size_t)idx].op.i("gib"); if (items[(size_t)idx].op.i("gib") > 1) p["thorough_only"] = 1; }
  J t = J::obj(); J objs = J::arr(); { J o = J::obj(); o["align"] = 0; o["init"] = "garbage"; o["gseed"] = 5; objs.push(o); } t["objs"] = objs; t["slots"] = 1;
  J ops = items[(size_t)idx].setup; ops.push(items[(size_t)idx].op);
  t["ops"] = ops; p["tasks"].push(t);
  p["corpus_index"] = (long long)idx;
  return p;
}

// C08: concurrent callers of the re-entrant interfaces
static J plan_c08(uint64_t seed, const std::string &tier) {
  Rng g(seed, "plan"); Pool &pool = pool_for(seed >> 6);
  J p = base_plan("C08", "thr", seed, tier, g);
  int nt = (int)g.range(2, 6);
  // one plan in 25: a crowd (9-20 callers, one or two calls each, biased to one method so that many of them are inside
  // the same code at once): limits on concurrent callers, per-thread slots that run out, counters shared by design
  bool crowd = g.chance(1, 25); int crowd_mi = (int)g.below(16);
  if (crowd) nt = (int)g.range(9, 20);
  for (int ti = 0; ti < nt; ti++) {
    int nobj = 1 + (int)g.below(2);
    J t = J::obj(); t["objs"] = mk_objs(g, nobj); t["slots"] = 1;
    J ops = J::arr(); int n = (int)g.range(1, crowd ? 2 : 4);
    std::vector<int> keyed((size_t)nobj, 0);
    for (int i = 0; i < n; i++) {
      unsigned x = (unsigned)g.below(100); J op = J::obj();
      if (crowd && x < 70) x = 0;
      if (x < 55) {
        Req r = g.chance(1, 6) ? invalid_req(g, pool, false) : valid_req(g, pool, false, 2);
        if (crowd && g.chance(3, 4)) for (int tries = 0; tries < 40 && r.m != METHODS[crowd_mi]; tries++) r = valid_req(g, pool, false, 2);
        op["k"] = hash_kind(g, false); place(g, op, nobj, 1); put_req(op, r);
        if (g.chance(1, 4)) { op["pre"] = "garbage"; op["gseed"] = (long long)g.below(100000); }
        if (op.has("obj")) keyed[(size_t)op.i("obj")] = 0;
      } else if (x < 78) op = gensalt_op(g, false, true, true);
      else if (x < 84) { op["k"] = "checksalt"; op["st"] = valid_req(g, pool, false, 3).st.to_json(); }
      else if (x < 87) op["k"] = "preferred";
      else {
        int o = (int)g.below((uint64_t)nobj);
        if (!keyed[(size_t)o] || g.chance(1, 3)) { op["k"] = "setkey_r"; op["obj"] = o; op["key"] = hex64(g, (int)g.below(4)); keyed[(size_t)o] = 1; }
        else { op["k"] = "encrypt_r"; op["obj"] = o; op["blk"] = hex64(g, (int)g.below(3)); op["flag"] = (long long)g.below(2); }
      }
      ops.push(op);
    }
    t["ops"] = ops; p["tasks"].push(t);
  }
  // rarely: two tasks each make one large-memory (32 MiB: huge-page attempt + fallback path) yescrypt-family call
  if (g.chance(1, 150)) {
    int mi = (int)g.below(2); std::string big = ref_gensalt(PREFIX[mi], 6, rnd_bytes(g, 16));
    if (!big.empty()) for (int ti = 0; ti < 2 && ti < (int)p["tasks"].a.size(); ti++) {
      J op = J::obj(); op["k"] = "crypt_ra"; op["slot"] = 0; op["ph"] = Bytes(std::string("large-memory")).to_json(); op["st"] = Bytes(big).to_json(); op["m"] = METHODS[mi]; op["cls"] = "valid-large"; op["huge_ok"] = g.chance(1, 2);
      p["tasks"].a[(size_t)ti]["ops"].push(op);
    }
  }
  // one plan in 20: two or three tasks each ask for 64 MiB .. 2 GiB (all refused by the simulated machine, so they cost
  // nothing): code that treats large regions specially - pools them, remembers a refusal - runs in several threads
  if (g.chance(1, 20)) {
    int mi = (int)g.below(3), l2 = (int)g.range(6, 11); std::string big = big_setting(g, mi, l2);
    int calls = (int)g.range(2, 4);
    if (!big.empty()) for (int c = 0; c < calls; c++) {
      size_t ti = (size_t)c % p["tasks"].a.size();
      J op = J::obj(); op["k"] = g.chance(1, 2) ? "crypt_ra" : "crypt_rn"; if (op.str("k") == "crypt_ra") op["slot"] = 0; else op["obj"] = 0;
      op["ph"] = Bytes(std::string("large-memory")).to_json(); op["st"] = Bytes(g.chance(1, 2) ? big : big_setting(g, mi, (int)g.range(6, 11))).to_json(); op["m"] = METHODS[mi]; op["cls"] = "big-memory"; op["huge_ok"] = g.chance(1, 2);
      J &ops = p["tasks"].a[ti]["ops"]; ops.a.insert(ops.a.begin() + (long)g.below(ops.a.size() + 1), op);
    }
  }
  // one plan in 40: two tasks each make one call with cost parameters just past the everyday ranges
  if (g.chance(1, 40)) {
    int mi = 0; std::string hs = heavy_lite_setting(g, &mi);
    if (!hs.empty()) for (int c = 0; c < 2; c++) {
      size_t ti = (size_t)c % p["tasks"].a.size();
      J op = J::obj(); op["k"] = g.chance(1, 2) ? "crypt_r" : "crypt_rn"; op["obj"] = 0;
      op["ph"] = Bytes(pool.phrases[g.below(pool.phrases.size())]).to_json(); op["st"] = Bytes(hs).to_json(); op["m"] = METHODS[mi]; op["cls"] = "valid-heavy";
      J &ops = p["tasks"].a[ti]["ops"]; ops.a.insert(ops.a.begin() + (long)g.below(ops.a.size() + 1), op);
    }
  }
  // some plans hand the very same read-only phrase/setting buffer to several tasks
  if (g.chance(1, 3)) {
    Req r = valid_req(g, pool, false, 2);
    J sh = J::arr(); sh.push(r.ph.to_json()); sh.push(r.st.to_json()); p["shared"] = sh;
    for (auto &t : p["tasks"].a) for (auto &op : t["ops"].a) {
      std::string k = op.str("k");
      if ((k == "crypt_r" || k == "crypt_rn" || k == "crypt_ra") && !op.has("size") && g.chance(1, 2)) { op["phs"] = 0; op["sts"] = 1; op["ph"] = r.ph.to_json(); op["st"] = r.st.to_json(); op["m"] = r.m; op["cls"] = "valid"; op.o.erase(std::remove_if(op.o.begin(), op.o.end(), [](const std::pair<std::string, J> &kv) { return kv.first == "mustfail"; }), op.o.end()); }
    }
  }
  J sch = J::obj(); sch["mode"] = "seeded"; sch["seed"] = (long long)(seed ^ 0x5ced); sch["d"] = (long long)g.below(9); sch["bias"] = g.chance(3, 4);
  p["schedule"] = sch;
  return p;
}

// C08, second workload: several callers whose large regions (64-512 MiB each, 1.2-2.5 GiB together) are all live at the
// same time.  Runs on the uninstrumented ASan engine under the coarse scheduler (preemption at allocator and mapping
// requests only) with hold_after_mmap, so the hashing itself runs at native speed.  What it can see: a call that is
// refused, slowed into failure or answered differently because of what other callers hold ("every call returns exactly
// what it would return if run alone"); what it cannot see: races (no instrumentation here).
static J plan_c08big(uint64_t seed, const std::string &tier) {
  Rng g(seed, "plan");
  J p = base_plan("C08", "asan", seed, tier, g);
  p["env"]["map_limit_mib"] = 600;
  int shape = (int)g.below(3);   // 0: 5-7 x 256 MiB, 1: 3-4 x 512 MiB, 2: 9-12 x 128 MiB
  int nt = shape == 0 ? (int)g.range(5, 7) : shape == 1 ? (int)g.range(3, 4) : (int)g.range(9, 12);
  int l2 = shape == 0 ? 8 : shape == 1 ? 9 : 7;
  for (int ti = 0; ti < nt; ti++) {
    J t = J::obj(); t["objs"] = mk_objs(g, 1); t["slots"] = 1;
    J ops = J::arr();
    int mi = g.chance(1, 4) ? 1 : 0;   // (scrypt is several times slower per byte)
    std::string st = big_setting(g, mi, l2);
    J op = J::obj(); op["k"] = g.chance(1, 2) ? "crypt_ra" : "crypt_rn"; if (op.str("k") == "crypt_ra") op["slot"] = 0; else op["obj"] = 0;
    op["ph"] = Bytes(mk_phrase(g, (size_t)g.range(1, 40), 0)).to_json(); op["st"] = Bytes(st).to_json(); op["m"] = METHODS[mi]; op["cls"] = "valid-big"; op["huge_ok"] = g.chance(1, 2);
    ops.push(op);
    if (g.chance(1, 2)) { J o2 = J::obj(); o2["k"] = "crypt_rn"; o2["obj"] = 0; o2["ph"] = Bytes(std::string("pw")).to_json(); o2["st"] = Bytes(std::string("$1$abcdefgh$")).to_json(); o2["m"] = "md5crypt"; o2["cls"] = "valid"; ops.a.insert(ops.a.begin() + (long)g.below(2), o2); }
    t["ops"] = ops; p["tasks"].push(t);
  }
  J sch = J::obj(); sch["mode"] = "coarse"; sch["hold_after_mmap"] = 1; p["schedule"] = sch;
  return p;
}

// C12 workload B: fallback entropy chain under a seeded syscall fault schedule; faults stop after a while
static J plan_c12b(uint64_t seed, const std::string &tier) {
  Rng g(seed, "plan");
  J p = base_plan("C12", "rng", seed, tier, g);
  int variant = (int)g.below(8);
  p["rng_variant"] = variant;
  { static const int fb[] = {1000, 1000, 3, 0}; p["fd_base"] = fb[g.below(4)]; }   // 0: the application runs with stdin closed
  J t = J::obj(); t["objs"] = J::arr(); t["slots"] = 0;
  J ops = J::arr();
  int n = (int)g.range(1, g.chance(1, 10) ? 24 : 8), faulty = (int)g.below((uint64_t)n + 1);
  int mi = (int)g.below(17);
  // rarely: a process that lives long with a source that never recovers (same pinned script in every call)
  bool longrun = g.chance(1, 100); J longscript = J::obj();
  bool marathon = longrun && g.chance(1, 6);
  if (longrun) {
    n = (int)g.range(200, 700); faulty = g.chance(1, 2) ? n : (int)g.range(100, n);
    if (marathon) { n = (int)(1000.0 * pow(30.0, (double)g.below(1000) / 1000.0)); faulty = g.chance(1, 2) ? n : (int)g.range(1, n); }   // thousands of calls: countdowns, retry budgets, counters that wrap
    static const char *hard[] = {"enosys*", "eio*", "eintr*", "eperm*"};
    if (variant & 1) { J a = J::arr(); a.push(hard[g.below(4)]); longscript["getentropy"] = a; }
    if (variant & 2) { J a = J::arr(); a.push(g.chance(1, 3) ? "short0*" : hard[g.below(4)]); longscript["getrandom"] = a; }
    if (variant & 4) { J a = J::arr(); a.push(g.chance(1, 3) ? "shortmax*" : hard[g.below(4)]); longscript["sys_getrandom"] = a; }
    if (g.chance(1, 2)) { J a = J::arr(); a.push(g.chance(1, 2) ? "enoent*" : "emfile*"); longscript["open"] = a; }
    else { J a = J::arr(); static const char *rd[] = {"short0*", "eio*", "shortmax*", "eintr*", "short:3*"}; a.push(rd[g.below(5)]); longscript["read"] = a; }
  }
  for (int i = 0; i < n; i++) {
    if (g.chance(1, 3)) mi = (int)g.below(17);
    J op = J::obj(); static const char *ks[] = {"gensalt", "gensalt_rn", "gensalt_ra"};
    op["k"] = ks[g.below(3)];
    if (mi == 16) op["pf"] = J(); else op["pf"] = Bytes(std::string(PREFIX[mi])).to_json();
    op["count"] = 0; op["rb"] = J(); op["nrb"] = 0;
    if (marathon && i >= 40) { op["noref"] = 1; op["k"] = "gensalt_rn"; }
    if (i < faulty && longrun) op["script"] = longscript;
    else if (i < faulty) {
      J sc = J::obj();
      auto outcomes = [&](const char *src, std::vector<const char *> kinds, unsigned pct) {
        if (!g.chance(pct, 100)) return;
        J a = J::arr(); int k = (int)g.range(1, 2);
        for (int j = 0; j < k; j++) { std::string o = kinds[g.below(kinds.size())]; if (o == "short:") o += std::to_string(g.range(0, 20)); a.push(o); }
        if (g.chance(1, 4)) { std::string last = a.a.back().s; a.a.back() = J(last + "*"); }   // pinned: every further call of this primitive in this op fails the same way
        sc[src] = a;
      };
      if (variant & 1) outcomes("getentropy", {"enosys", "eio", "eintr", "eperm", "einval", "efault"}, 75);
      if (variant & 2) outcomes("getrandom", {"enosys", "eintr", "short:", "eagain", "eio", "short0", "shortmax", "einval", "eperm"}, 75);
      if (variant & 4) outcomes("sys_getrandom", {"enosys", "eintr", "short:", "eio", "short0", "shortmax", "eagain", "efault"}, 75);
      if (g.chance(1, 2)) outcomes("open", {"enoent", "emfile", "eacces", "eintr", "enfile", "enomem"}, 60);
      else outcomes("read", {"short:", "eio", "eintr", "short:", "short0", "shortmax", "eagain", "ebadf"}, 70);
      if (g.chance(1, 6)) outcomes("close", {"eintr", "eio"}, 100);
      if (sc.size()) op["script"] = sc;
    }
    ops.push(op);
    if (g.chance(1, 5)) { J fr = J::obj(); fr["k"] = "free_results"; ops.push(fr); }
  }
  t["ops"] = ops; p["tasks"].push(t);
  // one run in four: several caller threads in the same process, interleaved at the simulated system calls.  The
  // memo flags are shared by design; whatever one thread does must not turn another thread's failed draw into a success.
  if (!longrun && g.chance(1, 4)) {
    int extra = (int)g.range(1, 2);
    for (int e = 0; e < extra; e++) {
      J t2 = J::obj(); t2["objs"] = J::arr(); t2["slots"] = 0; J ops2 = J::arr();
      for (auto &o : ops.a) { if (o.str("k") == "free_results") continue; J c = o; if (g.chance(1, 2)) c.o.erase(std::remove_if(c.o.begin(), c.o.end(), [](const std::pair<std::string, J> &kv) { return kv.first == "script"; }), c.o.end()); ops2.push(c); }
      t2["ops"] = ops2; p["tasks"].push(t2);
    }
    // crypt_gensalt (static buffer) is documented MT-Unsafe: several threads use the re-entrant entry points only
    for (auto &tk : p["tasks"].a) for (auto &o : tk["ops"].a) if (o.str("k") == "gensalt") o["k"] = "gensalt_rn";
  }
  return p;
}

// C17 thread part: the _r DES functions on distinct objects from several tasks
static J plan_c17t(uint64_t seed, const std::string &tier) {
  Rng g(seed, "plan"); Pool &pool = pool_for(seed >> 6);
  J p = base_plan("C17", "thr", seed, tier, g);
  int nt = (int)g.range(2, 4);
  for (int ti = 0; ti < nt; ti++) {
    int nobj = 1 + (int)g.below(2);
    J t = J::obj(); t["objs"] = mk_objs(g, nobj); t["slots"] = 1;
    J ops = J::arr(); int n = (int)g.range(2, 7);
    std::vector<int> keyed((size_t)nobj, 0);
    for (int i = 0; i < n; i++) {
      J op = J::obj(); unsigned x = (unsigned)g.below(100);
      int o = (int)g.below((uint64_t)nobj);
      if (x < 35 || !keyed[(size_t)o]) { op["k"] = "setkey_r"; op["obj"] = o; op["key"] = hex64(g, (int)g.below(4)); keyed[(size_t)o] = 1; }
      else if (x < 75) { op["k"] = "encrypt_r"; op["obj"] = o; op["blk"] = hex64(g, (int)g.below(3)); op["flag"] = (long long)g.below(2); }
      else if (x < 85) { op["k"] = "des_block"; op["key"] = hexenc(rnd_bytes(g, 8)); op["blk"] = hexenc(rnd_bytes(g, 8)); op["flag"] = (long long)g.below(2); op["gseed"] = (long long)g.below(1000); }
      else {
        Req r = valid_req(g, pool, false, 2);
        for (int tries = 0; tries < 40 && r.m != "descrypt" && r.m != "bigcrypt" && r.m != "bsdicrypt"; tries++) r = valid_req(g, pool, false, 2);
        op["k"] = g.chance(1, 2) ? "crypt_r" : "crypt_rn"; op["obj"] = o; put_req(op, r); keyed[(size_t)o] = 0;
      }
      ops.push(op);
    }
    t["ops"] = ops; p["tasks"].push(t);
  }
  J sch = J::obj(); sch["mode"] = "seeded"; sch["seed"] = (long long)(seed ^ 0x17); sch["d"] = (long long)g.below(9); sch["bias"] = 1;
  p["schedule"] = sch;
  return p;
}

// C05 thorough sweep: every forbidden byte value at one position of one valid setting per method,
// always on an object that currently holds a successful hash.
static J plan_c05sweep(uint64_t idx, long *total) {
  Pool &pool = pool_for(0);
  struct Item { int mi; std::string st; size_t pos; bool insert; };
  static std::vector<Item> items;
  if (items.empty())
    for (int mi = 0; mi < 16; mi++) {
      std::string st; for (auto &v : pool.valid) if (v.m == METHODS[mi] && v.s.size() < 70) { st = v.s; break; }
      if (st.empty()) continue;
      for (size_t pos = 0; pos <= st.size() && pos < 64; pos++) { if (pos < st.size()) items.push_back({mi, st, pos, false}); items.push_back({mi, st, pos, true}); }
    }
  if (total) *total = (long)items.size();
  if (idx >= items.size()) return J();
  const Item &it = items[idx];
  Rng g(idx, "sweep");
  J p = base_plan("C05", "asan", idx, "sweep", g);
  J t = J::obj(); t["objs"] = mk_objs(g, 1); t["slots"] = 1;
  J ops = J::arr();
  const std::string phrase = "sweep-phrase";
  int nth = 0;
  static const char *eks[] = {"crypt_r", "crypt_rn", "crypt_ra", "crypt"};
  for (int c = 1; c < 256; c++) {
    bool forbidden = c <= 0x20 || c >= 0x7f || strchr(":;*!\\", c);
    if (!forbidden) continue;
    const char *ek = eks[nth % 4];
    if (nth % 16 < 4) {   // refresh: a success through this entry point, so the failure hits a "holds a hash" state
      J ok = J::obj(); ok["k"] = ek; if (!strcmp(ek, "crypt_r") || !strcmp(ek, "crypt_rn")) ok["obj"] = 0; if (!strcmp(ek, "crypt_ra")) ok["slot"] = 0;
      ok["ph"] = Bytes(phrase).to_json(); ok["st"] = Bytes(it.st).to_json(); ok["m"] = METHODS[it.mi]; ok["cls"] = "valid"; ops.push(ok);
    }
    std::string s = it.st; if (it.insert) s.insert(it.pos, 1, (char)c); else s[it.pos] = (char)c;
    J op = J::obj(); op["k"] = ek; if (!strcmp(ek, "crypt_r") || !strcmp(ek, "crypt_rn")) op["obj"] = 0; if (!strcmp(ek, "crypt_ra")) op["slot"] = 0;
    op["ph"] = Bytes(phrase).to_json(); op["st"] = Bytes(s).to_json(); op["m"] = METHODS[it.mi]; op["cls"] = "forbidden-byte"; op["mustfail"] = "forbidden-byte";
    ops.push(op); nth++;
  }
  t["ops"] = ops; p["tasks"].push(t);
  return p;
}

// One plan in 300: a bigger machine (mappings below 300 MiB are granted) and one call that really needs 64, 128 or
// 256 MiB - with the huge-page attempt granted or refused - appended to the history.
static J with_big_real(J p, uint64_t seed) {
  Rng g(seed, "bigreal");
  if (!g.chance(1, 300) || p["tasks"].a.empty()) return p;
  J &t = p["tasks"].a[0];
  int mi = (int)g.below(3), l2 = mi == 2 ? 6 : (g.chance(3, 5) ? 6 : g.chance(3, 4) ? 7 : 8);
  std::string s = big_setting(g, mi, l2); if (s.empty()) return p;
  J op = J::obj();
  if (t.i("slots") >= 1 && g.chance(1, 2)) { op["k"] = "crypt_ra"; op["slot"] = 0; }
  else if (!t["objs"].a.empty()) { op["k"] = g.chance(1, 2) ? "crypt_r" : "crypt_rn"; op["obj"] = 0; }
  else return p;
  op["ph"] = Bytes(std::string("a phrase for a large-memory hash")).to_json(); op["st"] = Bytes(s).to_json(); op["m"] = METHODS[mi]; op["cls"] = "valid-big"; op["huge_ok"] = g.chance(1, 2);
  size_t at = g.below(t["ops"].a.size() + 1);
  t["ops"].a.insert(t["ops"].a.begin() + (long)at, op);
  p["env"]["map_limit_mib"] = 300;
  return p;
}
static J generate_plan_(const std::string &prop, uint64_t seed, const std::string &tier);
// Time passes between calls: mostly not at all, sometimes seconds, sometimes the jump a suspended laptop, an NTP step or
// a long-lived daemon sees (minutes to months, or backwards).  Fallback-entropy processes get more of it (a tree may
// time its retries).  The simulated clock is the only one library code can read.
static void with_clock(J &p, uint64_t seed, const std::string &prop) {
  Rng g(seed, "clock");
  static const long long jumps[] = {1, 2, 5, 59, 60, 61, 299, 300, 301, 599, 600, 601, 899, 900, 901, 3599, 3600, 3601, 86399, 86400, 86401, 604800, 2592000, 31536000, 100000, -1, -60, -3600, -86400};
  unsigned per = prop == "C12B" ? 6 : 30;
  if (!p.has("tasks")) return;
  if (g.chance(1, 4)) p["env"]["clock0"] = (long long)g.range(-1000000000, 2000000000);   // the process starts at another time (1998 .. 2087)
  for (auto &t : p["tasks"].a) for (auto &op : t["ops"].a) if (g.chance(1, per)) op["clock"] = jumps[g.below(sizeof jumps / sizeof *jumps)];
}
J generate_plan(const std::string &prop, uint64_t seed, const std::string &tier) {
  J p = generate_plan_(prop, seed, tier);
  if (prop != "C15corpus" && prop != "C05sweep") with_clock(p, seed, prop);
  if (prop == "C05" || prop == "C05ft" || prop == "C07" || prop == "C09" || prop == "C14" || prop == "C15") return with_big_real(p, seed);
  return p;
}
static J generate_plan_(const std::string &prop, uint64_t seed, const std::string &tier) {
  g_tier_thorough = tier == "thorough";
  g_allow_heavy = !(prop == "C08" || prop == "C08big" || prop == "C17t" || prop == "C12B" || prop == "C15corpus" || prop == "C05sweep");
  if (prop == "C12B") return plan_c12b(seed, tier);
  if (prop == "C08big") return plan_c08big(seed, tier);
  if (prop == "C17t") return plan_c17t(seed, tier);
  if (prop == "C05sweep") { long total = 0; J p = plan_c05sweep(seed, &total); if (p.is_null()) { J e = J::obj(); e["total"] = (long long)total; return e; } return p; }
  if (prop == "C07") return plan_c07(seed, tier, false, "C07");
  if (prop == "C05") return plan_c05(seed, tier);
  if (prop == "C05ft") { J p = plan_c05(seed ^ 0x5f7, tier); p["variant"] = "asan-ft"; p["seed"] = (long long)seed; return p; }
  if (prop == "C09") return plan_c09(seed, tier);
  if (prop == "C12") return plan_c12(seed, tier);
  if (prop == "C14") return plan_c14(seed, tier);
  if (prop == "C15") return plan_c15(seed, tier);
  if (prop == "C17") return plan_c17(seed, tier);
  if (prop == "C08") return plan_c08(seed, tier);
  if (prop == "C15corpus") { long total = 0; J p = c15_corpus_item((long)seed, &total); if (p.is_null()) { J e = J::obj(); e["total"] = (long long)total; return e; } p["total"] = (long long)total; return p; }
  crash_exit("machinery", ("no generator for " + prop).c_str());
  return J();
}
