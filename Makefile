# Build of the deterministic simulator against the working tree in $(REPO).
# Everything lands in $(B) (git-ignored).  `make setup` = full build; every
# registered check re-runs `make all` first, which is incremental and picks up
# any edit under $(REPO)/lib, $(REPO)/config.h and the header generators.

REPO ?= /repo
V    := $(patsubst %/,%,$(dir $(abspath $(lastword $(MAKEFILE_LIST)))))
B    ?= $(V)/build
GEN  := $(B)/gen
SIM  := $(V)/sim

CLANG   ?= clang
CLANGXX ?= clang++
GCC     ?= gcc
GXX     ?= g++
PERL    ?= perl
OBJCOPY ?= objcopy

# ---- parameters of the shipped configuration, read from the repo's Makefile
mkvar = $(shell sed -n 's/^$(1) = *//p' $(REPO)/Makefile | head -1)
HASHES_ENABLED := $(call mkvar,hashes_enabled)
SYMVER_MIN     := $(call mkvar,SYMVER_MIN)
SYMVER_FLOOR   := $(call mkvar,SYMVER_FLOOR)
COMPAT_ABI     := $(call mkvar,COMPAT_ABI)
SCR := $(REPO)/build-aux/scripts
FAILTOK := $(or $(shell sed -n 's/^#define ENABLE_FAILURE_TOKENS  *//p' $(REPO)/config.h),0)

# the library's source list, as automake sees it (files that are only #included are not in it)
LIBSRC  := $(addprefix $(REPO)/,$(shell awk '/^libcrypt_la_SOURCES/{f=1} f{for(i=1;i<=NF;i++) if($$i ~ /^lib\/.*\.c$$/) print $$i} f && !/\\$$/{f=0}' $(REPO)/Makefile.am))
LIBBASE := $(notdir $(LIBSRC:.c=))

GENHDR := $(GEN)/crypt.h $(GEN)/crypt-hashes.h $(GEN)/crypt-symbol-vers.h

LIBCPP := -DHAVE_CONFIG_H -DIN_LIBCRYPT -DPIC -I$(GEN) -I$(REPO) -I$(REPO)/lib \
          -Wno-unknown-attributes -Wno-attributes

all: $(B)/simcrypt-asan $(B)/simcrypt-asan-ft $(B)/simcrypt-thr $(B)/simcrypt-O0 $(B)/refsrv $(B)/rngsim $(B)/tree.sha $(B)/externals.txt $(B)/locale/.done

setup: all

.PHONY: all setup clean FORCE
clean:
	rm -rf $(B)

$(GEN)/.dir:
	mkdir -p $(GEN) $(B)/asan $(B)/asanft $(B)/thr $(B)/O0 $(B)/ref $(B)/rng $(B)/h
	touch $@

# ---- generated headers: the repository's own generators
$(GEN)/crypt-hashes.h: $(REPO)/lib/hashes.conf $(SCR)/gen-crypt-hashes-h $(SCR)/BuildCommon.pm $(REPO)/Makefile $(GEN)/.dir
	LC_ALL=C $(PERL) $(SCR)/gen-crypt-hashes-h $(REPO)/lib/hashes.conf $(HASHES_ENABLED) > $@.T && mv -f $@.T $@
$(GEN)/crypt-symbol-vers.h: $(REPO)/lib/libcrypt.map.in $(SCR)/gen-crypt-symbol-vers-h $(SCR)/BuildCommon.pm $(REPO)/Makefile $(GEN)/.dir
	LC_ALL=C $(PERL) $(SCR)/gen-crypt-symbol-vers-h yes SYMVER_MIN=$(SYMVER_MIN) SYMVER_FLOOR=$(SYMVER_FLOOR) COMPAT_ABI=$(COMPAT_ABI) $(REPO)/lib/libcrypt.map.in > $@.T && mv -f $@.T $@
$(GEN)/crypt.h: $(REPO)/lib/crypt.h.in $(REPO)/lib/hashes.conf $(REPO)/config.h $(SCR)/gen-crypt-h $(SCR)/BuildCommon.pm $(REPO)/Makefile $(GEN)/.dir
	LC_ALL=C $(PERL) $(SCR)/gen-crypt-h $(REPO)/lib/crypt.h.in $(REPO)/config.h $(REPO)/lib/hashes.conf $(HASHES_ENABLED) > $@.T && mv -f $@.T $@

# ---- symbol redirection lists (library objects only)
REDIR_MEM := malloc realloc free mmap munmap arc4random_buf __assert_fail abort \
             calloc posix_memalign aligned_alloc mmap64 strdup strndup reallocarray memalign valloc \
             madvise posix_madvise mlock mlock2 munlock mprotect mincore
REDIR_THR := memcpy memmove memset explicit_bzero memcmp bcmp snprintf \
             pthread_mutex_lock pthread_mutex_trylock pthread_mutex_unlock pthread_once \
             pthread_rwlock_rdlock pthread_rwlock_wrlock pthread_rwlock_unlock pthread_spin_lock pthread_spin_unlock \
             mtx_lock mtx_trylock mtx_unlock call_once \
             strlen strcspn strspn strncmp strchr strrchr strtoul
# libc functions POSIX documents as MT-Unsafe, plus ordinary nondeterminism
# sources: reached => recorded by the runtime (see sim/stubs.c)
REDIR_DENY := strtok rand srand random srandom strerror asctime ctime gmtime localtime \
              getpwnam getpwuid getgrnam getgrgid setlocale ttyname getenv \
              time clock_gettime gettimeofday getpid
redir = $(foreach s,$(1),--redefine-sym $(s)=sim_$(s))
# more MT-Unsafe libc functions: generic recording trampolines (no signature needed)
MT_UNSAFE := $(shell grep -v '^\#' $(SIM)/mt_unsafe.txt)
$(GEN)/deny_stubs.S: $(SIM)/mt_unsafe.txt $(V)/Makefile $(GEN)/.dir
	@{ echo '/* generated from sim/mt_unsafe.txt */'; echo '.text'; \
	for f in $(MT_UNSAFE); do \
	  echo ".globl simd_$$f"; echo ".type simd_$$f,@function"; echo "simd_$$f:"; \
	  echo "  push %rbp; mov %rsp,%rbp; push %rdi; push %rsi; push %rdx; push %rcx; push %r8; push %r9; push %rax; push %r10"; \
	  echo "  sub \$$128,%rsp; movdqu %xmm0,(%rsp); movdqu %xmm1,16(%rsp); movdqu %xmm2,32(%rsp); movdqu %xmm3,48(%rsp); movdqu %xmm4,64(%rsp); movdqu %xmm5,80(%rsp); movdqu %xmm6,96(%rsp); movdqu %xmm7,112(%rsp)"; \
	  echo "  lea .Lname_$$f(%rip),%rdi; call deny_reached_c@PLT"; \
	  echo "  movdqu (%rsp),%xmm0; movdqu 16(%rsp),%xmm1; movdqu 32(%rsp),%xmm2; movdqu 48(%rsp),%xmm3; movdqu 64(%rsp),%xmm4; movdqu 80(%rsp),%xmm5; movdqu 96(%rsp),%xmm6; movdqu 112(%rsp),%xmm7; add \$$128,%rsp"; \
	  echo "  pop %r10; pop %rax; pop %r9; pop %r8; pop %rcx; pop %rdx; pop %rsi; pop %rdi; pop %rbp"; \
	  echo "  .weak $$f"; echo "  jmp *$$f@GOTPCREL(%rip)"; \
	  echo ".section .rodata"; echo ".Lname_$$f: .asciz \"$$f\""; echo ".text"; \
	done; echo '.section .note.GNU-stack,"",@progbits'; } > $@
$(B)/h/deny_stubs.o: $(GEN)/deny_stubs.S
	$(CLANG) -c $< -o $@
redir_deny2 = $(foreach s,$(MT_UNSAFE),--redefine-sym $(s)=simd_$(s))
# crypt()'s function-local static object gets one global name whatever the compiler called it
STATICOBJ_clang := --redefine-sym _crypt_crypt.nr_crypt_ctx=sim_static_crypt_ctx --globalize-symbol=sim_static_crypt_ctx
STATICOBJ_gcc   := --redefine-sym nr_crypt_ctx.0=sim_static_crypt_ctx --globalize-symbol=sim_static_crypt_ctx
# the library's writable static state goes into its own output sections so that the
# executor can put it back to its initial value before every run (one run = one plan)
LIBSTATE := --rename-section .data=libdata --rename-section .bss=libbss --rename-section .data.rel.local=libdata

# ---- library objects per variant
define LIBRULE
$(B)/$(1)/%.o: $(REPO)/lib/%.c $(GENHDR) $(REPO)/config.h $(V)/Makefile
	@mkdir -p $$(dir $$@); echo CC[$(1)] $$(notdir $$<); $(2) $(LIBCPP) -MMD -MP -MT $$@ -MF $$@.d -c $$< -o $$@.raw.o
	@$(OBJCOPY) $(3) $(4) $(if $(3),$(redir_deny2)) --globalize-symbol=nr_encrypt_ctx $$@.raw.o $$@
$(1)_LIBOBJ := $(addprefix $(B)/$(1)/,$(addsuffix .o,$(LIBBASE)))
-include $(addprefix $(B)/$(1)/,$(addsuffix .o.d,$(LIBBASE)))
endef

ASAN_FLAGS := -O1 -g -fno-omit-frame-pointer -fsanitize=address
THR_FLAGS  := -O2 -g -fno-omit-frame-pointer -fsanitize=thread
O0_FLAGS   := -O0 -g
REF_FLAGS  := -O2 -g

$(eval $(call LIBRULE,asan,$(CLANG) $(ASAN_FLAGS),$(call redir,$(REDIR_MEM) $(REDIR_DENY)),$(LIBSTATE)))
# same as asan, failure-token option flipped relative to the shipped configuration (C05, second engine)
FLIPTOK := $(if $(filter 1,$(FAILTOK)),0,1)
$(eval $(call LIBRULE,asanft,$(CLANG) $(ASAN_FLAGS) -I$(SIM)/ntcfg -DREPO_CONFIG_H='"$(REPO)/config.h"' -DSIM_FLIPPED_FAILTOK=$(FLIPTOK),$(call redir,$(REDIR_MEM) $(REDIR_DENY)),$(LIBSTATE) $(STATICOBJ_clang)))
$(eval $(call LIBRULE,thr,$(CLANG) $(THR_FLAGS),$(call redir,$(REDIR_MEM) $(REDIR_THR) $(REDIR_DENY)),$(LIBSTATE) $(STATICOBJ_clang)))
$(eval $(call LIBRULE,O0,$(GCC) $(O0_FLAGS),$(call redir,$(REDIR_MEM) $(REDIR_DENY)),$(LIBSTATE) $(STATICOBJ_gcc)))
$(eval $(call LIBRULE,ref,$(CLANG) $(REF_FLAGS),,))

# ---- harness
HHDR := $(wildcard $(SIM)/*.hh) $(wildcard $(SIM)/*.h)
HCPP := -std=c++17 -I$(GEN) -I$(SIM) -Wall -Wno-unused-function -Wno-unused-variable \
        -DENABLE_FAILURE_TOKENS=$(FAILTOK) -DREPO_DIR='"$(REPO)"' -DHASHES_ENABLED='"$(HASHES_ENABLED)"'
HLIBS := -lpthread -lgcrypt -Wl,-z,now
PRIMCPP := -DHAVE_CONFIG_H -DIN_LIBCRYPT -DPIC -I$(GEN) -I$(REPO) -I$(REPO)/lib -Wno-unknown-attributes -Wno-attributes
$(B)/h/prim-asan.o: $(SIM)/prim.c $(GENHDR) $(wildcard $(REPO)/lib/*.h)
	$(CLANG) $(PRIMCPP) -O1 -g -fsanitize=address -c $< -o $@
$(B)/h/prim-thr.o: $(SIM)/prim.c $(GENHDR) $(wildcard $(REPO)/lib/*.h)
	$(CLANG) $(PRIMCPP) -O2 -g -c $< -o $@
$(B)/h/prim-O0.o: $(SIM)/prim.c $(GENHDR) $(wildcard $(REPO)/lib/*.h)
	$(GCC) $(PRIMCPP) -O0 -g -c $< -o $@

HNAMES := engine gen memlayer desmodel refclient util stubs
define HRULE
$(B)/h/$(1)/%.o: $(SIM)/%.cc $(HHDR) $(GENHDR) $(V)/Makefile
	@mkdir -p $(B)/h/$(1)
	@echo CXX[$(1)] $$(notdir $$<); $(2) $(HCPP) -c $$< -o $$@
$(1)_HOBJ := $(addprefix $(B)/h/$(1)/,$(addsuffix .o,$(HNAMES)))
endef
$(eval $(call HRULE,asan,$(CLANGXX) -DSIM_ASAN -O1 -g -fno-omit-frame-pointer -fsanitize=address))
$(eval $(call HRULE,asanft,$(CLANGXX) -DSIM_ASAN -DSIM_FAILTOK=$(FLIPTOK) -O1 -g -fno-omit-frame-pointer -fsanitize=address))
$(eval $(call HRULE,thr,$(CLANGXX) -DSIM_THR -O2 -g -fno-omit-frame-pointer))
$(eval $(call HRULE,O0,$(GXX) -DSIM_O0 -O1 -g))
$(eval $(call HRULE,rng,$(CLANGXX) -DSIM_ASAN -DSIM_RNG -O1 -g -fno-omit-frame-pointer -fsanitize=address))

$(B)/simcrypt-asan: $(B)/h/deny_stubs.o $(asan_HOBJ) $(asan_LIBOBJ) $(B)/h/prim-asan.o
	$(CLANGXX) -fsanitize=address $(asan_HOBJ) $(B)/h/prim-asan.o $(asan_LIBOBJ) $(B)/h/deny_stubs.o $(HLIBS) -o $@
$(B)/simcrypt-asan-ft: $(B)/h/deny_stubs.o $(asanft_HOBJ) $(asanft_LIBOBJ) $(B)/h/prim-asan.o
	$(CLANGXX) -fsanitize=address $(asanft_HOBJ) $(B)/h/prim-asan.o $(asanft_LIBOBJ) $(B)/h/deny_stubs.o $(HLIBS) -o $@
$(B)/simcrypt-thr: $(B)/h/deny_stubs.o $(thr_HOBJ) $(B)/h/thr/thr_rt.o $(thr_LIBOBJ) $(B)/h/prim-thr.o
	$(CLANGXX) $(thr_HOBJ) $(B)/h/thr/thr_rt.o $(B)/h/prim-thr.o $(thr_LIBOBJ) $(B)/h/deny_stubs.o $(HLIBS) -o $@
$(B)/simcrypt-O0: $(B)/h/deny_stubs.o $(O0_HOBJ) $(O0_LIBOBJ) $(B)/h/prim-O0.o
	$(GXX) $(O0_HOBJ) $(B)/h/prim-O0.o $(O0_LIBOBJ) $(B)/h/deny_stubs.o $(HLIBS) -o $@
$(B)/refsrv: $(SIM)/refsrv.c $(ref_LIBOBJ) $(GENHDR)
	$(CLANG) -O2 -g -I$(GEN) -I$(REPO) -I$(REPO)/lib $(SIM)/refsrv.c $(ref_LIBOBJ) -o $@

# ---- C12 workload B: util-get-random-bytes.c in its fallback configurations
# (shadow config.h that #undefs HAVE_ARC4RANDOM_BUF etc.), see sim/rngsim.cc
RNGV := 0 1 2 3 4 5 6 7
RNG_REDIR := getentropy getrandom syscall open open64 read close __assert_fail abort time clock_gettime gettimeofday getpid
define RNGRULE
$(B)/rng/grb$(1).o: $(REPO)/lib/util-get-random-bytes.c $(SIM)/rngcfg/config.h $(GENHDR) $(REPO)/config.h
	$(CLANG) -O1 -g -fsanitize=address -DRNGV=$(1) -DREPO_CONFIG_H='"$(REPO)/config.h"' -I$(SIM)/rngcfg $(LIBCPP) -c $$< -o $$@.raw.o
	$(OBJCOPY) $(call redir,$(RNG_REDIR)) --redefine-sym _crypt_get_random_bytes=grb_variant_$(1) $$@.raw.o $$@
endef
$(foreach v,$(RNGV),$(eval $(call RNGRULE,$(v))))
RNGOBJ := $(foreach v,$(RNGV),$(B)/rng/grb$(v).o)
RNG_LIBOBJ := $(filter-out $(B)/asan/util-get-random-bytes.o,$(asan_LIBOBJ))
$(B)/rngsim: $(B)/h/deny_stubs.o $(rng_HOBJ) $(B)/h/rng/rngdev.o $(RNGOBJ) $(RNG_LIBOBJ) $(B)/h/prim-asan.o
	$(CLANGXX) -fsanitize=address $(rng_HOBJ) $(B)/h/rng/rngdev.o $(B)/h/prim-asan.o $(RNGOBJ) $(RNG_LIBOBJ) $(B)/h/deny_stubs.o $(HLIBS) -o $@

# ---- an 8-bit locale for the "process locale" environment choice (only C and C.utf8 are installed here);
# LC_CTYPE only, compiled from sim/locale/latin1.src and a generated identity charmap.  Best effort: without
# localedef the engine falls back to the C locale and says so in the evidence (locale_unavailable).
$(B)/locale/.done: $(SIM)/locale/latin1.src $(V)/Makefile $(GEN)/.dir
	@mkdir -p $(B)/locale
	@{ echo '<code_set_name> ISO-8859-1'; echo '<comment_char> %'; echo '<escape_char> /'; echo 'CHARMAP'; \
	   i=0; while [ $$i -lt 256 ]; do printf '<U%04X> /x%02x\n' $$i $$i; i=$$((i+1)); done; echo 'END CHARMAP'; } > $(B)/locale/latin1.charmap
	-@localedef -c -f $(B)/locale/latin1.charmap -i $(SIM)/locale/latin1.src $(B)/locale/xx_XX.ISO-8859-1 >/dev/null 2>&1; true
	@touch $@

# ---- identity of the tree under test and its external surface
$(B)/tree.sha: $(LIBSRC) $(wildcard $(REPO)/lib/*.h) $(REPO)/lib/hashes.conf $(REPO)/config.h $(GEN)/.dir
	cat $(sort $(LIBSRC) $(wildcard $(REPO)/lib/*.h) $(REPO)/lib/hashes.conf $(REPO)/config.h) | sha256sum | cut -c1-16 > $@
$(B)/externals.txt: $(ref_LIBOBJ)
	nm -u $(ref_LIBOBJ) | awk '$$1=="U"{print $$2}' | grep -v '^_crypt_' | sort -u > $@
