/* Reference server: the same tree, plain build, NO symbol redirection.
   One request per line on stdin; every request is evaluated in a freshly
   forked child on freshly zeroed objects, so no history, no concurrency and
   no fault can influence the answer (DESIGN.md 3.5).  The parent never calls
   the library.

   request                                   reply
   H <phrase> <setting>                      S h<hex> | F <errno>
   G <prefix> <count> <rbytes> <nrb> <osz>   S h<hex> | F <errno>
   C <setting>                               I <int>
   P                                         S h<hex> | F 0
   byte strings: "n" = NULL pointer, "h<hex>" = bytes
   abnormal child end: X <wait status>   watchdog: T                        */
#include <errno.h>
#include <signal.h>
#include <stdio.h>
#include <stdlib.h>
#include <string.h>
#include <sys/wait.h>
#include <unistd.h>
#include "crypt.h"

extern char *_crypt_crypt_rn(const char *, const char *, void *, int);
extern char *_crypt_crypt_gensalt_rn(const char *, unsigned long, const char *, int, char *, int);
extern int _crypt_crypt_checksalt(const char *);
extern const char *_crypt_crypt_preferred_method(void);

static int hv(int c) { return c >= '0' && c <= '9' ? c - '0' : c >= 'a' && c <= 'f' ? c - 'a' + 10 : -1; }
/* returns malloc'd buffer (NUL terminated) or NULL for "n"; *len set */
static char *dec(const char *tok, size_t *len, int *isnull) {
  *isnull = 0; *len = 0;
  if (!tok || tok[0] == 'n') { *isnull = 1; return NULL; }
  size_t n = (strlen(tok) - 1) / 2;
  char *b = malloc(n + 1);
  for (size_t i = 0; i < n; i++) b[i] = (char)(hv(tok[1 + 2 * i]) * 16 + hv(tok[2 + 2 * i]));
  b[n] = 0; *len = n;
  return b;
}
static void reply_str(const char *s) {
  size_t n = strlen(s);
  char *o = malloc(2 * n + 8), *p = o;
  *p++ = 'S'; *p++ = ' '; *p++ = 'h';
  static const char d[] = "0123456789abcdef";
  for (size_t i = 0; i < n; i++) { *p++ = d[(unsigned char)s[i] >> 4]; *p++ = d[s[i] & 15]; }
  *p++ = '\n';
  (void)!write(1, o, (size_t)(p - o));
}
static void reply_fmt(const char *k, long v) {
  char b[64]; int n = snprintf(b, sizeof b, "%s %ld\n", k, v);
  (void)!write(1, b, (size_t)n);
}

static void serve(char *line) {
  char *tok[8]; int nt = 0;
  for (char *p = strtok(line, " \n"); p && nt < 8; p = strtok(NULL, " \n")) tok[nt++] = p;
  if (nt == 0) { reply_fmt("E", 0); return; }
  size_t l; int nul;
  if (tok[0][0] == 'H' && nt == 3) {
    char *ph = dec(tok[1], &l, &nul), *st = dec(tok[2], &l, &nul);
    struct crypt_data *d = calloc(1, sizeof *d);
    errno = 0;
    char *r = _crypt_crypt_rn(ph, st, d, (int)sizeof *d);
    if (r) reply_str(r); else reply_fmt("F", errno);
  } else if (tok[0][0] == 'G' && nt == 6) {
    char *pf = dec(tok[1], &l, &nul);
    unsigned long count = strtoul(tok[2], NULL, 10);
    size_t rl; char *rb = dec(tok[3], &rl, &nul);
    int nrb = atoi(tok[4]), osz = atoi(tok[5]);
    char *out = calloc(1, osz > 0 ? (size_t)osz : 1);
    char *_crypt_crypt_gensalt_ra(const char *, unsigned long, const char *, int);
    char *_crypt_crypt_gensalt(const char *, unsigned long, const char *, int);
    errno = 0;
    /* two reserved sizes select the other entry points, so that each one is compared with itself evaluated alone
       (a tree whose crypt_gensalt_ra retries with a larger buffer is not crypt_gensalt_rn with 192 bytes) */
    char *r = osz == -2000000001 ? _crypt_crypt_gensalt_ra(pf, count, rb, nrb)
            : osz == -2000000002 ? _crypt_crypt_gensalt(pf, count, rb, nrb)
            : _crypt_crypt_gensalt_rn(pf, count, rb, nrb, out, osz);
    if (r) reply_str(r); else reply_fmt("F", errno);
  } else if (tok[0][0] == 'C' && nt == 2) {
    char *st = dec(tok[1], &l, &nul);
    reply_fmt("I", _crypt_crypt_checksalt(st));
  } else if (tok[0][0] == 'P') {
    const char *r = _crypt_crypt_preferred_method();
    if (r) reply_str(r); else reply_fmt("F", 0);
  } else reply_fmt("E", 1);
}

int main(void) {
  char *line = NULL; size_t cap = 0;
  signal(SIGPIPE, SIG_IGN);
  while (getline(&line, &cap, stdin) > 0) {
    pid_t pid = fork();
    if (pid < 0) { reply_fmt("E", 2); continue; }
    if (pid == 0) { alarm(400); serve(line); _exit(0); }
    int st = 0;
    while (waitpid(pid, &st, 0) < 0 && errno == EINTR) {}
    if (WIFSIGNALED(st) && WTERMSIG(st) == SIGALRM) reply_fmt("T", 0);
    else if (!WIFEXITED(st) || WEXITSTATUS(st) != 0) reply_fmt("X", st);
  }
  return 0;
}
