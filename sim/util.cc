#include "util.hh"
#include <cstdarg>
#include <cstdlib>

// ---------------------------------------------------------------- JSON dump
static void dump_str(const std::string &s, std::string &out) {
  out += '"';
  for (unsigned char c : s) {
    switch (c) {
      case '"': out += "\\\""; break;
      case '\\': out += "\\\\"; break;
      case '\n': out += "\\n"; break;
      case '\r': out += "\\r"; break;
      case '\t': out += "\\t"; break;
      default:
        if (c < 0x20 || c >= 0x7f) { char b[8]; snprintf(b, sizeof b, "\\u%04x", c); out += b; }
        else out += (char)c;
    }
  }
  out += '"';
}
static void dump_rec(const J &j, std::string &out) {
  switch (j.t) {
    case J::NUL: out += "null"; break;
    case J::BOOL: out += j.b ? "true" : "false"; break;
    case J::NUM: out += std::to_string(j.n); break;
    case J::STR: dump_str(j.s, out); break;
    case J::ARR:
      out += '[';
      for (size_t i = 0; i < j.a.size(); i++) { if (i) out += ','; dump_rec(j.a[i], out); }
      out += ']';
      break;
    case J::OBJ:
      out += '{';
      for (size_t i = 0; i < j.o.size(); i++) {
        if (i) out += ',';
        dump_str(j.o[i].first, out); out += ':'; dump_rec(j.o[i].second, out);
      }
      out += '}';
      break;
  }
}
std::string J::dump() const { std::string s; dump_rec(*this, s); return s; }

// ---------------------------------------------------------------- JSON parse
namespace {
struct P {
  const std::string &t; size_t i = 0; std::string err;
  explicit P(const std::string &s) : t(s) {}
  void ws() { while (i < t.size() && (t[i] == ' ' || t[i] == '\n' || t[i] == '\t' || t[i] == '\r')) i++; }
  bool fail(const char *m) { if (err.empty()) err = vfmt("%s at offset %zu", m, i); return false; }
  bool str(std::string &out) {
    if (t[i] != '"') return fail("expected string");
    i++;
    while (i < t.size() && t[i] != '"') {
      char c = t[i++];
      if (c == '\\') {
        if (i >= t.size()) return fail("bad escape");
        char e = t[i++];
        switch (e) {
          case 'n': out += '\n'; break; case 't': out += '\t'; break; case 'r': out += '\r'; break;
          case 'b': out += '\b'; break; case 'f': out += '\f'; break;
          case 'u': {
            if (i + 4 > t.size()) return fail("bad \\u");
            unsigned v = (unsigned)strtoul(t.substr(i, 4).c_str(), nullptr, 16); i += 4;
            if (v < 0x100) out += (char)v;            // plans only carry bytes
            else { out += (char)(0xe0 | (v >> 12)); out += (char)(0x80 | ((v >> 6) & 0x3f)); out += (char)(0x80 | (v & 0x3f)); }
            break;
          }
          default: out += e;
        }
      } else out += c;
    }
    if (i >= t.size()) return fail("unterminated string");
    i++;
    return true;
  }
  bool val(J &j) {
    ws();
    if (i >= t.size()) return fail("unexpected end");
    char c = t[i];
    if (c == '{') {
      i++; j.t = J::OBJ; ws();
      if (i < t.size() && t[i] == '}') { i++; return true; }
      for (;;) {
        ws(); std::string k; if (!str(k)) return false;
        ws(); if (i >= t.size() || t[i] != ':') return fail("expected ':'"); i++;
        J v; if (!val(v)) return false; j.o.emplace_back(k, std::move(v));
        ws(); if (i < t.size() && t[i] == ',') { i++; continue; }
        if (i < t.size() && t[i] == '}') { i++; return true; }
        return fail("expected ',' or '}'");
      }
    }
    if (c == '[') {
      i++; j.t = J::ARR; ws();
      if (i < t.size() && t[i] == ']') { i++; return true; }
      for (;;) {
        J v; if (!val(v)) return false; j.a.push_back(std::move(v));
        ws(); if (i < t.size() && t[i] == ',') { i++; continue; }
        if (i < t.size() && t[i] == ']') { i++; return true; }
        return fail("expected ',' or ']'");
      }
    }
    if (c == '"') { j.t = J::STR; return str(j.s); }
    if (!t.compare(i, 4, "null")) { i += 4; j.t = J::NUL; return true; }
    if (!t.compare(i, 4, "true")) { i += 4; j.t = J::BOOL; j.b = true; return true; }
    if (!t.compare(i, 5, "false")) { i += 5; j.t = J::BOOL; j.b = false; return true; }
    if (c == '-' || (c >= '0' && c <= '9')) {
      size_t s = i; if (t[i] == '-') i++;
      while (i < t.size() && ((t[i] >= '0' && t[i] <= '9') || t[i] == '.' || t[i] == 'e' || t[i] == 'E' || t[i] == '+' || t[i] == '-')) i++;
      j.t = J::NUM; j.n = strtoll(t.substr(s, i - s).c_str(), nullptr, 10); return true;
    }
    return fail("unexpected character");
  }
};
}  // namespace
bool J::parse(const std::string &text, J &out, std::string *err) {
  P p(text); out = J();
  bool ok = p.val(out);
  if (ok) { p.ws(); if (p.i != text.size()) ok = p.fail("trailing data"); }
  if (!ok && err) *err = p.err;
  return ok;
}

// ---------------------------------------------------------------- coding
std::string hexenc(const void *p, size_t n) {
  static const char d[] = "0123456789abcdef";
  const unsigned char *c = (const unsigned char *)p;
  std::string s; s.reserve(2 * n);
  for (size_t i = 0; i < n; i++) { s += d[c[i] >> 4]; s += d[c[i] & 15]; }
  return s;
}
bool hexdec(const std::string &h, std::string &out) {
  out.clear();
  if (h.size() % 2) return false;
  auto v = [](char c) -> int { return c >= '0' && c <= '9' ? c - '0' : c >= 'a' && c <= 'f' ? c - 'a' + 10 : c >= 'A' && c <= 'F' ? c - 'A' + 10 : -1; };
  for (size_t i = 0; i < h.size(); i += 2) {
    int a = v(h[i]), b = v(h[i + 1]);
    if (a < 0 || b < 0) return false;
    out += (char)(a * 16 + b);
  }
  return true;
}
J Bytes::to_json() const {
  if (null) return J();
  bool plain = true;
  for (unsigned char c : b) if (c < 0x20 || c >= 0x7f || c == '"' || c == '\\') { plain = false; break; }
  return plain ? J("s:" + b) : J("x:" + hexenc(b));
}
Bytes Bytes::from_json(const J &j) {
  Bytes r;
  if (j.t != J::STR) return r;
  r.null = false;
  if (j.s.compare(0, 2, "x:") == 0) hexdec(j.s.substr(2), r.b);
  else if (j.s.compare(0, 2, "s:") == 0) r.b = j.s.substr(2);
  else r.b = j.s;
  return r;
}

std::string vfmt(const char *fmt, ...) {
  va_list ap; va_start(ap, fmt);
  char buf[2048]; int n = vsnprintf(buf, sizeof buf, fmt, ap); va_end(ap);
  if (n < 0) return "";
  if ((size_t)n < sizeof buf) return std::string(buf, (size_t)n);
  std::string s((size_t)n + 1, '\0');
  va_start(ap, fmt); vsnprintf(&s[0], s.size(), fmt, ap); va_end(ap);
  s.resize((size_t)n);
  return s;
}
bool read_file(const std::string &path, std::string &out) {
  FILE *f = fopen(path.c_str(), "rb"); if (!f) return false;
  out.clear(); char buf[65536]; size_t n;
  while ((n = fread(buf, 1, sizeof buf, f)) > 0) out.append(buf, n);
  fclose(f); return true;
}
bool write_file(const std::string &path, const std::string &data) {
  FILE *f = fopen(path.c_str(), "wb"); if (!f) return false;
  bool ok = fwrite(data.data(), 1, data.size(), f) == data.size();
  return fclose(f) == 0 && ok;
}
