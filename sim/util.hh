// Small self-contained helpers: JSON value, seeded PRNG with named
// sub-streams, hex coding, FNV-1a.  No dependency on the library under test.
#pragma once
#include <cstdint>
#include <cstdio>
#include <cstring>
#include <string>
#include <utility>
#include <vector>

// ---------------------------------------------------------------- JSON
struct J {
  enum T { NUL, BOOL, NUM, STR, ARR, OBJ } t = NUL;
  bool b = false;
  long long n = 0;
  std::string s;
  std::vector<J> a;
  std::vector<std::pair<std::string, J>> o;

  J() {}
  J(bool v) : t(BOOL), b(v) {}
  J(int v) : t(NUM), n(v) {}
  J(long v) : t(NUM), n(v) {}
  J(long long v) : t(NUM), n(v) {}
  J(unsigned v) : t(NUM), n(v) {}
  J(unsigned long v) : t(NUM), n((long long)v) {}
  J(unsigned long long v) : t(NUM), n((long long)v) {}
  J(const char *v) : t(STR), s(v) {}
  J(const std::string &v) : t(STR), s(v) {}
  static J arr() { J j; j.t = ARR; return j; }
  static J obj() { J j; j.t = OBJ; return j; }

  bool is_null() const { return t == NUL; }
  bool has(const std::string &k) const { return find(k) != nullptr; }
  const J *find(const std::string &k) const {
    for (auto &kv : o) if (kv.first == k) return &kv.second;
    return nullptr;
  }
  J &operator[](const std::string &k) {
    if (t == NUL) t = OBJ;
    for (auto &kv : o) if (kv.first == k) return kv.second;
    o.emplace_back(k, J());
    return o.back().second;
  }
  const J &at(const std::string &k) const {
    static const J nul;
    const J *p = find(k);
    return p ? *p : nul;
  }
  long long i(const std::string &k, long long dflt = 0) const {
    const J *p = find(k);
    return (p && p->t == NUM) ? p->n : (p && p->t == BOOL ? (long long)p->b : dflt);
  }
  std::string str(const std::string &k, const std::string &dflt = "") const {
    const J *p = find(k);
    return (p && p->t == STR) ? p->s : dflt;
  }
  void push(const J &v) { if (t == NUL) t = ARR; a.push_back(v); }
  size_t size() const { return t == ARR ? a.size() : o.size(); }

  std::string dump() const;
  static bool parse(const std::string &text, J &out, std::string *err = nullptr);
};

// ---------------------------------------------------------------- PRNG
static inline uint64_t splitmix64(uint64_t &x) {
  uint64_t z = (x += 0x9e3779b97f4a7c15ULL);
  z = (z ^ (z >> 30)) * 0xbf58476d1ce4e5b9ULL;
  z = (z ^ (z >> 27)) * 0x94d049bb133111ebULL;
  return z ^ (z >> 31);
}
static inline uint64_t fnv1a(const void *p, size_t n, uint64_t h = 0xcbf29ce484222325ULL) {
  const unsigned char *c = (const unsigned char *)p;
  for (size_t i = 0; i < n; i++) { h ^= c[i]; h *= 0x100000001b3ULL; }
  return h;
}
static inline uint64_t fnv1a(const std::string &s, uint64_t h = 0xcbf29ce484222325ULL) {
  return fnv1a(s.data(), s.size(), h);
}

struct Rng {  // xoshiro256**
  uint64_t s[4];
  Rng() { seed(0); }
  explicit Rng(uint64_t x) { seed(x); }
  Rng(uint64_t x, const char *stream) {
    uint64_t h = fnv1a(stream, strlen(stream), fnv1a(&x, 8));
    seed(h);
  }
  void seed(uint64_t x) { for (auto &w : s) w = splitmix64(x); }
  static uint64_t rotl(uint64_t x, int k) { return (x << k) | (x >> (64 - k)); }
  uint64_t next() {
    uint64_t r = rotl(s[1] * 5, 7) * 9, t = s[1] << 17;
    s[2] ^= s[0]; s[3] ^= s[1]; s[1] ^= s[2]; s[0] ^= s[3]; s[2] ^= t; s[3] = rotl(s[3], 45);
    return r;
  }
  // uniform in [0,n)
  uint64_t below(uint64_t n) { return n ? next() % n : 0; }
  long range(long lo, long hi) { return lo + (long)below((uint64_t)(hi - lo + 1)); }
  bool chance(unsigned num, unsigned den) { return below(den) < num; }
  template <class T> const T &pick(const std::vector<T> &v) { return v[below(v.size())]; }
};

// ---------------------------------------------------------------- coding
std::string hexenc(const void *p, size_t n);
static inline std::string hexenc(const std::string &s) { return hexenc(s.data(), s.size()); }
bool hexdec(const std::string &h, std::string &out);

// Byte strings in plans: JSON null = NULL pointer; "s:text" for printable
// text without quotes/backslashes; "x:hex" otherwise.
struct Bytes {
  bool null = true;
  std::string b;
  Bytes() {}
  Bytes(const std::string &v) : null(false), b(v) {}
  static Bytes Null() { return Bytes(); }
  J to_json() const;
  static Bytes from_json(const J &j);
  const char *cstr() const { return null ? nullptr : b.c_str(); }
  bool operator==(const Bytes &o) const { return null == o.null && b == o.b; }
};

std::string vfmt(const char *fmt, ...) __attribute__((format(printf, 1, 2)));
bool read_file(const std::string &path, std::string &out);
bool write_file(const std::string &path, const std::string &data);
