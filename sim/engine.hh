// Executor internals shared between engine.cc and oracle helpers.
#pragma once
#include <functional>
#include <set>
#include "sim.hh"

extern "C" {
#include "crypt.h"
char *_crypt_crypt(const char *, const char *);
char *_crypt_crypt_r(const char *, const char *, struct crypt_data *);
char *_crypt_crypt_rn(const char *, const char *, void *, int);
char *_crypt_crypt_ra(const char *, const char *, void **, int *);
char *_crypt_crypt_gensalt(const char *, unsigned long, const char *, int);
char *_crypt_crypt_gensalt_rn(const char *, unsigned long, const char *, int, char *, int);
char *_crypt_crypt_gensalt_ra(const char *, unsigned long, const char *, int);
int _crypt_crypt_checksalt(const char *);
const char *_crypt_crypt_preferred_method(void);
void _crypt_setkey(const char *);
void _crypt_encrypt(char *, int);
void _crypt_setkey_r(const char *, struct crypt_data *);
void _crypt_encrypt_r(char *, int, struct crypt_data *);
void _crypt_des_set_key(void *ctx, const unsigned char *key);
void _crypt_des_set_salt(void *ctx, uint32_t salt);
void _crypt_des_crypt_block(void *ctx, unsigned char *out, const unsigned char *in, unsigned count, bool decrypt);
extern char nr_encrypt_ctx[];  // globalised by objcopy
int prim_run(int alg, const uint8_t *msg, size_t len, const uint8_t *key, size_t klen, void *ctxbuf, size_t *ctx_used, uint8_t *out);
const char *prim_name(int alg);
int gen_yescrypt_setting(unsigned flags, unsigned long long N, unsigned r, unsigned p, unsigned t, const unsigned char *salt, size_t saltlen, char *out, size_t outlen);
}

struct TaskStack { char *lo; size_t size; };
extern TaskStack g_stack[MAX_TASKS];

void set_cur_task(int t);
void set_cur_op(int task, int op);
void crash_exit(const char *why, const char *detail);

// pattern windows for the erasure oracle (C09)
struct PatSet {
  std::vector<uint64_t> table;  // open-addressed set of 8-byte windows; 0 = empty
  std::vector<std::pair<uint64_t, const char *>> all;  // window -> encoding name
  uint64_t mask = 0;
  std::vector<std::pair<std::string, const char *>> shorts;   // whole short secrets (6-7 bytes) in the byte-wise encodings
  bool empty() const { return all.empty() && shorts.empty(); }
  void build(const std::string &secret);
  // returns encoding name of the first window found in [p,p+n), offset in *off
  const char *scan(const void *p, size_t n, size_t *off) const __attribute__((no_sanitize("address")));
};
