/* Shadow config.h for C12 workload B: the repository's own config.h with
   arc4random_buf (and, per variant, other entropy primitives) switched off,
   so that util-get-random-bytes.c is compiled with its fallback chain.
   RNGV bits: 1 getentropy, 2 getrandom, 4 syscall(SYS_getrandom); /dev/urandom
   is always compiled in.  */
#include REPO_CONFIG_H
#undef HAVE_ARC4RANDOM_BUF
#if !(RNGV & 1)
#undef HAVE_GETENTROPY
#endif
#if !(RNGV & 2)
#undef HAVE_GETRANDOM
#endif
#if !(RNGV & 4)
#undef HAVE_SYSCALL
#endif
