/* Shadow config.h for the second C05 engine: the repository's own configuration with the
   failure-token build option flipped, so that the clause "NULL or the failure token from
   crypt/crypt_r according to the build option" is exercised in both settings.  */
#include REPO_CONFIG_H
#undef ENABLE_FAILURE_TOKENS
#define ENABLE_FAILURE_TOKENS SIM_FLIPPED_FAILTOK
