// simcrypt: plan executor, oracles, worker/replay front end (DESIGN.md 3, 4).
#include <algorithm>
#include <cassert>
#include <cerrno>
#include <csignal>
#include <cstdlib>
#include <cstring>
#include <pthread.h>
#include <sys/mman.h>
#include <sys/personality.h>
#include <sys/time.h>
#include <unistd.h>
#include <clocale>
#include "engine.hh"

#define NOASAN __attribute__((no_sanitize_address))

#ifndef SIM_FAILTOK
#define SIM_FAILTOK ENABLE_FAILURE_TOKENS     /* the engine built against the flipped configuration overrides this */
#endif
#if defined(SIM_RNG)
#include <sys/wait.h>
#include "rngdev.hh"
static const char *VARIANT = "rng";
extern "C" __attribute__((used, visibility("default"))) const char *__asan_default_options() {
  return "exitcode=77:detect_leaks=0:abort_on_error=0:detect_stack_use_after_return=0:allocator_may_return_null=1";
}
#elif defined(SIM_ASAN)
static const char *VARIANT = "asan";
extern "C" __attribute__((used, visibility("default"))) const char *__asan_default_options() {
  return "exitcode=77:detect_leaks=0:abort_on_error=0:detect_stack_use_after_return=0:allocator_may_return_null=1";
}
#elif defined(SIM_THR)
static const char *VARIANT = "thr";
#elif defined(SIM_O0)
static const char *VARIANT = "O0";
#else
#error "one of SIM_ASAN SIM_THR SIM_O0"
#endif

// ================================================================= run state
static Violation g_viol;
static unsigned long g_viol_extra;
static std::string g_prop;         // property the running plan belongs to
static uint64_t g_trace_hash;
static unsigned long g_events;
bool g_log_events = false;
static std::vector<std::string> g_event_text;
static std::map<std::string, long> g_stats;
static uint64_t g_run_seed;
static const char *g_phase = "idle";

void ev(const std::string &line) {
  g_trace_hash = fnv1a(line, g_trace_hash) * 0x100000001b3ULL ^ 0x0a;
  g_events++;
  if (g_log_events) g_event_text.push_back(line);
}
void violation(const char *prop, const char *cls, int task, int op, const std::string &msg) {
  if (g_viol.set) { g_viol_extra++; return; }
  g_viol.set = true;
  g_viol.prop = prop ? prop : g_prop;
  g_viol.cls = cls; g_viol.task = task; g_viol.op = op; g_viol.msg = msg;
  ev(vfmt("VIOLATION %s %s t%d op%d", g_viol.prop.c_str(), cls, task, op));
}
bool run_violated() { return g_viol.set; }
static void stat(const std::string &k, long n = 1) { g_stats[k] += n; }

// A crash inside the library (assert, abort, signal): the process cannot
// continue; say so on stdout in the result format and leave.
void crash_exit(const char *why, const char *detail) {
  J r = J::obj();
  r["seed"] = (long long)g_run_seed;
  r["prop"] = g_prop;
  r["ok"] = false;
  r["crash"] = why;
  J v = J::obj();
  v["prop"] = g_prop; v["cls"] = std::string("crash"); v["task"] = cur_task(); v["op"] = cur_op(cur_task());
  v["msg"] = std::string(why) + ": " + detail;
  r["viol"] = v;
  r["phase"] = g_phase;
  std::string s = r.dump() + "\n";
  (void)!write(1, s.data(), s.size());
  _exit(strcmp(why, "machinery") == 0 ? 2 : 78);
}
static void on_watchdog(int) {
  static const char m[] = "{\"ok\":false,\"crash\":\"machinery\",\"why\":\"watchdog: one run exceeded its wall-clock limit\"}\n";
  (void)!write(1, m, sizeof m - 1);
  _exit(2);
}
static void on_fatal_signal(int sig) {
  static const char m1[] = "{\"ok\":false,\"crash\":\"signal\",\"signal\":";
  char b[160]; int n = snprintf(b, sizeof b, "%s%d,\"seed\":%llu,\"prop\":\"%s\"}\n", m1, sig, (unsigned long long)g_run_seed, g_prop.c_str());
  (void)!write(1, b, (size_t)n);
  _exit(79);
}

// ================================================================= configuration read from the tree
struct HashConf { std::string name, prefix; int nrbytes; bool enabled; };
static std::vector<HashConf> g_hashconf;
#ifndef REPO_DIR
#define REPO_DIR "/repo"
#endif
#ifndef HASHES_ENABLED
#define HASHES_ENABLED ""
#endif
static void load_hashconf() {
  std::string text;
  if (!read_file(std::string(getenv("VERIF_REPO") ? getenv("VERIF_REPO") : REPO_DIR) + "/lib/hashes.conf", text)) { fprintf(stderr, "cannot read hashes.conf\n"); _exit(2); }
  std::string en = HASHES_ENABLED;
  size_t pos = 0;
  while (pos < text.size()) {
    size_t e = text.find('\n', pos); if (e == std::string::npos) e = text.size();
    std::string line = text.substr(pos, e - pos); pos = e + 1;
    if (line.empty() || line[0] == '#') continue;
    char name[64], prefix[64], flags[256]; int nrb;
    if (sscanf(line.c_str(), "%63s %63s %d %255s", name, prefix, &nrb, flags) != 4) continue;
    HashConf h; h.name = name; h.prefix = strcmp(prefix, ":") ? prefix : ""; h.nrbytes = nrb;
    h.enabled = en.find("," + h.name + ",") != std::string::npos;
    g_hashconf.push_back(h);
  }
}
static const HashConf *conf_for_prefix(const std::string &s) {
  for (auto &h : g_hashconf) if (h.enabled && !h.prefix.empty() && s.compare(0, h.prefix.size(), h.prefix) == 0) return &h;
  return nullptr;
}
static bool setting_chars_ok(const std::string &s) {
  for (unsigned char c : s) if (c <= 0x20 || c >= 0x7f || strchr("!*:;\\", c)) return false;
  return true;
}

bool is_curated_malformed(const std::string &setting);   // gen.cc
void deny_reset();                                        // stubs.cc
// Numeric parameter fields as crypt(5) documents them: "rounds=" of $5$/$6$/$md5 is an unsigned decimal number,
// the bcrypt cost is exactly two decimal digits.  Anything else in such a field is a malformed parameter,
// which the statement lists as a must-fail class.  (sha1crypt's iteration field is deliberately not judged:
// the unchanged tree accepts "+5" and "05" there, see DESIGN 6.)
static bool numeric_field_malformed(const std::string &s) {
  auto field_bad = [&](size_t from, unsigned long long lo, unsigned long long hi) {
    size_t e = s.find('$', from); if (e == std::string::npos) e = s.size();
    if (e == from) return true;
    for (size_t i = from; i < e; i++) if (s[i] < '0' || s[i] > '9') return true;
    if (e - from > 19) return true;                      // does not fit any documented range
    unsigned long long v = strtoull(s.substr(from, e - from).c_str(), nullptr, 10);
    return v < lo || v > hi;
  };
  // crypt(5): rounds of sha256crypt/sha512crypt range from 1000 to 999,999,999
  if (!s.compare(0, 10, "$5$rounds=") || !s.compare(0, 10, "$6$rounds=")) return field_bad(10, 1000, 999999999ULL);
  if (!s.compare(0, 12, "$md5,rounds=")) return field_bad(12, 0, 4294967295ULL);
  if (s.size() >= 4 && s[0] == '$' && s[1] == '2' && strchr("abxy", s[2]) && s[3] == '$')
    return !(s.size() >= 7 && s[4] >= '0' && s[4] <= '9' && s[5] >= '0' && s[5] <= '9' && s[6] == '$');
  return false;
}

// "$sha1$<iterations>$<salt>[$...]": the hash repeats the whole salt, so a salt that leaves no room for
// "$sha1$" + iterations + "$" + salt + "$" + 28 digest characters + NUL inside CRYPT_OUTPUT_SIZE cannot
// produce a hash (finding F5; decided from the argument alone, only for the plain spelling of the number).
static bool sha1crypt_cannot_fit(const std::string &s) {
  if (s.compare(0, 6, "$sha1$")) return false;
  size_t p = 6, d = 0;
  while (p < s.size() && s[p] >= '0' && s[p] <= '9') { p++; d++; }
  if (d == 0 || d > 19 || p >= s.size() || s[p] != '$') return false;
  if (d > 1 && s[6] == '0') return false;    // leading zeros print shorter: not judged
  p++;
  size_t sl = 0;
  static const char itoa64[] = "./0123456789ABCDEFGHIJKLMNOPQRSTUVWXYZabcdefghijklmnopqrstuvwxyz";
  while (p + sl < s.size() && strchr(itoa64, s[p + sl])) sl++;
  if (sl == 0 || (p + sl < s.size() && s[p + sl] != '$')) return false;
  return 6 + d + 1 + sl + 1 + 28 + 1 > CRYPT_OUTPUT_SIZE;
}

// hashes.conf lists two prefixes that do not end in '$': "$sha1" and "$md5".  crypt(5) gives the formats
// \$sha1\$... and \$md5(,rounds=N)?\$...; anything else behind those letters ("$sha1crypt$..", "$md5x$..") names no
// method at all - an unknown method in the statement's words - and must fail.
static bool open_prefix_tag_unknown(const std::string &s) {
  if (!s.compare(0, 5, "$sha1")) return s.size() == 5 || s[5] != '$';
  if (!s.compare(0, 4, "$md5")) return s.size() == 4 || (s[4] != '$' && s[4] != ',');
  return false;
}

// ================================================================= pattern set (C09)
static inline uint64_t ld64(const void *p) { uint64_t v; memcpy(&v, p, 8); return v; }
static inline uint64_t mixh(uint64_t x) { x *= 0x9e3779b97f4a7c15ULL; return x ^ (x >> 29); }
void PatSet::build(const std::string &s) {
  all.clear(); table.clear(); mask = 0; shorts.clear();
  if (s.size() >= 6 && s.size() < 8) {
    // a passphrase shorter than a window: the whole of it, in the encodings that keep one byte per character
    // (6 random bytes turn up by chance in a 16 KiB region once in 10^10 scans)
    std::string a, b, c2;
    for (unsigned char ch : s) { a += (char)((ch << 1) & 0xff); b += (char)(ch ^ 0x36); c2 += (char)(ch ^ 0x5c); }
    shorts.emplace_back(s, "raw"); shorts.emplace_back(a, "DES-key(<<1)"); shorts.emplace_back(b, "HMAC-ipad(^0x36)"); shorts.emplace_back(c2, "HMAC-opad(^0x5c)");
  }
  std::vector<std::pair<std::string, const char *>> enc;
  enc.emplace_back(s, "raw");
  { std::string e; for (unsigned char c : s) { e += (char)c; e += '\0'; } enc.emplace_back(e, "UCS-2LE"); }
  { std::string e; for (unsigned char c : s) e += (char)((c << 1) & 0xff); enc.emplace_back(e, "DES-key(<<1)"); }
  { std::string e; for (unsigned char c : s) e += (char)(c ^ 0x36); enc.emplace_back(e, "HMAC-ipad(^0x36)"); }
  { std::string e; for (unsigned char c : s) e += (char)(c ^ 0x5c); enc.emplace_back(e, "HMAC-opad(^0x5c)"); }
  static const char *n32[] = {"BE32-swap/phase0", "BE32-swap/phase1", "BE32-swap/phase2", "BE32-swap/phase3"};
  static const char *n64[] = {"BE64-swap/phase0", "BE64-swap/phase1", "BE64-swap/phase2", "BE64-swap/phase3",
                              "BE64-swap/phase4", "BE64-swap/phase5", "BE64-swap/phase6", "BE64-swap/phase7"};
  for (size_t w : {4u, 8u})
    for (size_t ph = 0; ph < w; ph++) {
      std::string e;
      for (size_t i = ph; i + w <= s.size(); i += w) for (size_t j = 0; j < w; j++) e += s[i + w - 1 - j];
      enc.emplace_back(e, w == 4 ? n32[ph] : n64[ph]);
    }
  for (auto &en : enc) {
    const std::string &e = en.first;
    for (size_t i = 0; i + 8 <= e.size(); i++) {
      bool seen[256] = {false}; int distinct = 0;
      for (size_t j = 0; j < 8; j++) if (!seen[(unsigned char)e[i + j]]) { seen[(unsigned char)e[i + j]] = true; distinct++; }
      if (distinct < 4) continue;   // too regular to tell from fill patterns
      uint64_t v = ld64(e.data() + i);
      if (v) all.emplace_back(v, en.second);
    }
  }
  if (all.empty()) return;
  size_t cap = 64; while (cap < all.size() * 4) cap <<= 1;
  table.assign(cap, 0); mask = cap - 1;
  for (auto &w : all) {
    size_t h = mixh(w.first) & mask;
    while (table[h] && table[h] != w.first) h = (h + 1) & mask;
    table[h] = w.first;
  }
}
NOASAN const char *PatSet::scan(const void *p, size_t n, size_t *off) const {
  const unsigned char *c = (const unsigned char *)p;
  for (auto &sp : shorts) {
    size_t L = sp.first.size(); const unsigned char *q = (const unsigned char *)sp.first.data();
    for (size_t i = 0; i + L <= n; i++) { if (c[i] != q[0]) continue; size_t j = 1; while (j < L && c[i + j] == q[j]) j++; if (j == L) { if (off) *off = i; return sp.second; } }
  }
  if (all.empty() || n < 8) return nullptr;
  const uint64_t *tb = table.data();
  for (size_t i = 0; i + 8 <= n; i++) {
    uint64_t v; __builtin_memcpy(&v, c + i, 8);
    if (!v) continue;
    size_t h = mixh(v) & mask;
    while (tb[h]) {
      if (tb[h] == v) {
        for (auto &w : all) if (w.first == v) { if (off) *off = i; return w.second; }
      }
      h = (h + 1) & mask;
    }
  }
  return nullptr;
}

NOASAN static std::string hexdump_raw(const void *p, size_t n) {
  static const char d[] = "0123456789abcdef"; std::string s; const unsigned char *c = (const unsigned char *)p;
  for (size_t i = 0; i < n; i++) { s += d[c[i] >> 4]; s += d[c[i] & 15]; }
  return s;
}
// ================================================================= tasks, stacks, deep calls
TaskStack g_stack[MAX_TASKS];
#define TASK_STACK_SIZE (2u << 20)
#define DEEP_PAD 16384
#define DEEP_KEEP 12288

static void ensure_stacks(int n) {
  for (int t = 0; t < n; t++)
    if (!g_stack[t].lo) {
      void *p = mmap(nullptr, TASK_STACK_SIZE, PROT_READ | PROT_WRITE, MAP_PRIVATE | MAP_ANONYMOUS, -1, 0);
      if (p == MAP_FAILED) { perror("mmap stack"); _exit(2); }
      g_stack[t].lo = (char *)p; g_stack[t].size = TASK_STACK_SIZE;
    }
}

struct DeepCall { std::function<void()> *f; };
static void deep_tramp(void *p) { (*((DeepCall *)p)->f)(); }
__attribute__((noinline)) static void deep_inner(void (*fn)(void *), void *arg) {
  volatile char pad[DEEP_PAD];
  pad[0] = 1; pad[DEEP_PAD - 1] = 1;
  void (*volatile vf)(void *) = fn;
  vf(arg);
  asm volatile("" ::: "memory");
  (void)pad[0];
}
static std::string g_locpath;
static uint64_t g_stack_garbage_seed;   // != 0: fill the dead stack below every API call with seeded garbage (C07: an
                                        // uninitialised local must not get the same leftovers in both passes)
NOASAN __attribute__((noinline)) static void stack_poison(char *lo, char *hi) {
  if (!g_stack_garbage_seed) { for (volatile char *p = lo; p < hi; p++) *p = (char)0xA5; return; }
  uint64_t x = g_stack_garbage_seed;
  for (volatile uint64_t *p = (volatile uint64_t *)(((uintptr_t)lo + 7) & ~(uintptr_t)7); (char *)(p + 1) <= hi; p++) *p = splitmix64(x);
}
// The dead frames of whatever fn ran stay untouched in [range_lo, range_hi)
// until the next deepcall: harness frames live above range_hi.
struct DeepRange { char *lo, *hi; };
static bool g_call_on_new_thread;     // this op's API call runs on a brand-new thread (state that is per-process must not be per-thread)
__attribute__((noinline)) static DeepRange deepcall(int task, std::function<void()> f, bool poison) {
  char marker;
  DeepRange r;
  r.lo = g_stack[task].lo + 4096;
  r.hi = (char *)(((uintptr_t)&marker - DEEP_KEEP) & ~(uintptr_t)15);
  if (r.hi < r.lo + 65536) crash_exit("machinery", "task stack too small");
  if (r.hi - r.lo > 262144 && g_stack_garbage_seed) r.lo = r.hi - 262144;   // the garbage variant only needs the part a call can reach
  if (poison || g_stack_garbage_seed) stack_poison(r.lo, r.hi);
  DeepCall dc{&f};
  if (g_call_on_new_thread && !thr::enabled) {
    g_call_on_new_thread = false;
    int me = cur_task();
    pthread_t th; struct Arg { DeepCall *dc; int task; } a{&dc, me};
    pthread_create(&th, nullptr, [](void *p) -> void * { Arg *q = (Arg *)p; set_cur_task(q->task); deep_tramp(q->dc); return nullptr; }, &a);
    pthread_join(th, nullptr);
    return r;
  }
  deep_inner(deep_tramp, &dc);
  return r;
}

#ifndef SIM_THR
// single-task builds: tasks run one after another, each on its own stack
namespace thr {
bool enabled = false;
void init() {}
void begin_run(const J &, uint64_t, int) {}
void region_add(const void *, size_t, int, const char *) {}
void region_del(const void *) {}
void task_start(int) {}
void task_finish(int) {}
void api_boundary(int, int, bool) {}
struct Boot { void (*body)(int, void *); void *arg; int task; };
// Coarse scheduler for multi-task plans of the uninstrumented engines (the fallback-entropy workload, and the
// large-memory crowds of C08): caller threads are real pthreads holding a baton; the only preemption points are the
// simulated system calls (getentropy/getrandom/syscall/open/read/close) and the allocator/mapping requests - exactly the
// places where a real thread can lose the CPU for long.  Seeded; one runnable at a time.  With hold_after_mmap every
// task is parked right after its mapping was granted until all others have theirs (or are done): everything the
// callers map is live at the same time, at native speed, deterministically.
bool g_co_hold_after_mmap = false;
static pthread_mutex_t co_mu = PTHREAD_MUTEX_INITIALIZER;
static pthread_cond_t co_cv = PTHREAD_COND_INITIALIZER;
static int co_cur = -1, co_n = 0; static bool co_done[MAX_TASKS], co_mapped[MAX_TASKS]; static Rng co_rng; static long co_switches;
static void co_wait(int me) { while (co_cur != me) pthread_cond_wait(&co_cv, &co_mu); }
static int co_pick(int me) { std::vector<int> c; for (int t = 0; t < co_n; t++) if (t != me && !co_done[t]) c.push_back(t); return c.empty() ? -1 : c[co_rng.below(c.size())]; }
void co_yield_point(const char *where) {
  if (co_n < 2) return;
  int me = cur_task();
  pthread_mutex_lock(&co_mu);
  bool hold = g_co_hold_after_mmap && !strcmp(where, "mmap-granted");
  if (hold) co_mapped[me] = true;
  if (hold || co_rng.chance(1, 3)) {
    int to = -1;
    if (hold) { std::vector<int> c; for (int t = 0; t < co_n; t++) if (t != me && !co_done[t] && !co_mapped[t]) c.push_back(t); if (!c.empty()) to = c[co_rng.below(c.size())]; }   // first those that hold nothing yet
    if (to < 0) to = co_pick(me);
    if (to >= 0) { ev(vfmt("switch t%d->t%d at %s", me, to, where)); co_switches++; co_cur = to; pthread_cond_broadcast(&co_cv); co_wait(me); } }
  pthread_mutex_unlock(&co_mu);
}
static void *boot(void *p) {
  Boot *b = (Boot *)p; set_cur_task(b->task);
  if (co_n >= 2) { pthread_mutex_lock(&co_mu); co_wait(b->task); pthread_mutex_unlock(&co_mu); }
  b->body(b->task, b->arg);
  if (co_n >= 2) { pthread_mutex_lock(&co_mu); co_done[b->task] = true; int to = co_pick(b->task); co_cur = to; pthread_cond_broadcast(&co_cv); pthread_mutex_unlock(&co_mu); }
  return nullptr;
}
void run_tasks(int n, void (*body)(int, void *), void *arg, size_t) {
  co_n = n >= 2 ? n : 0; co_switches = 0;
  if (n < 2) {
    pthread_attr_t a; pthread_attr_init(&a); pthread_attr_setstack(&a, g_stack[0].lo, g_stack[0].size);
    Boot b{body, arg, 0}; pthread_t th; if (pthread_create(&th, &a, boot, &b)) { perror("pthread_create"); _exit(2); }
    pthread_join(th, nullptr); pthread_attr_destroy(&a); return;
  }
  co_rng = Rng(g_run_seed, "co-schedule"); for (auto &d : co_done) d = false; for (auto &d : co_mapped) d = false;
  Boot b[MAX_TASKS]; pthread_t th[MAX_TASKS];
  pthread_mutex_lock(&co_mu); co_cur = -1; pthread_mutex_unlock(&co_mu);
  for (int t = 0; t < n; t++) {
    pthread_attr_t a; pthread_attr_init(&a); pthread_attr_setstack(&a, g_stack[t].lo, g_stack[t].size);
    b[t] = Boot{body, arg, t}; if (pthread_create(&th[t], &a, boot, &b[t])) { perror("pthread_create"); _exit(2); }
    pthread_attr_destroy(&a);
  }
  pthread_mutex_lock(&co_mu); co_cur = (int)co_rng.below((uint64_t)n); pthread_cond_broadcast(&co_cv); pthread_mutex_unlock(&co_mu);
  for (int t = 0; t < n; t++) pthread_join(th[t], nullptr);
  stat("co_switches", co_switches);
  co_n = 0;
}
J end_run() { J o = J::obj(); o["midcall_switches"] = (long long)co_switches; o["coarse"] = 1; return o; }
}  // namespace thr
#endif

// ================================================================= library static state
// Library objects are linked with their .data/.bss renamed to libdata/libbss (Makefile).  The
// state is captured once at start-up and put back before every run, so that a run is a function
// of its plan alone even for a tree that keeps something in a static.
extern "C" { extern char __start_libdata[] __attribute__((weak)), __stop_libdata[] __attribute__((weak)), __start_libbss[] __attribute__((weak)), __stop_libbss[] __attribute__((weak)); }
static std::string g_snap_data, g_snap_bss;
NOASAN static void raw_copy(char *d, const char *s, size_t n) { for (size_t i = 0; i < n; i++) d[i] = s[i]; }
static void libstate_snapshot() {
  if (__start_libdata) { g_snap_data.resize((size_t)(__stop_libdata - __start_libdata)); raw_copy(&g_snap_data[0], __start_libdata, g_snap_data.size()); }
  if (__start_libbss) { g_snap_bss.resize((size_t)(__stop_libbss - __start_libbss)); raw_copy(&g_snap_bss[0], __start_libbss, g_snap_bss.size()); }
}
static void libstate_restore() {
  if (!g_snap_data.empty()) raw_copy(__start_libdata, g_snap_data.data(), g_snap_data.size());
  if (!g_snap_bss.empty()) raw_copy(__start_libbss, g_snap_bss.data(), g_snap_bss.size());
}

// ================================================================= run context
struct DataObj {
  char *base = nullptr;       // over-allocated block
  char *alloc = nullptr;      // what free() gets (base lies inside it when the object is placed on a page boundary)
  struct crypt_data *cd = nullptr;
  int align = 0;
  std::string state = "fresh";          // fresh | success | failure | scribbled
  std::set<std::string> returned;       // strings successful calls returned from this object
  // C17 model
  int key_state = 0;                    // 0 unset, 1 known, 2 erased by a hashing call, 3 overwritten by the application
  bool input_tainted = false, setting_tainted = false, output_tainted = false;   // the caller itself put a phrase/setting there
  unsigned char key[8];
};
struct Slot {
  void *data = nullptr; int size = 0;
  std::string state = "fresh";
  std::set<std::string> returned;
};
struct TaskCtx {
  std::vector<DataObj> objs;
  std::vector<Slot> slots;
  std::vector<void *> owned_strings;    // crypt_gensalt_ra results not yet freed
  const char *last_gensalt_static = nullptr;
  std::string last_des_out, last_des_in;
  int last_errno = 0;
  std::map<std::string, std::vector<std::string>> null_rbytes_results;  // C12-3
};
struct Run {
  J plan;
  int ntasks = 0;
  TaskCtx tc[MAX_TASKS];
  // static areas (shared by design; only single-task plans touch them)
  std::string static_state = "fresh";
  std::set<std::string> static_returned;
  int skey_state = 0; unsigned char skey[8];
  // oracle families
  bool o_ref = false, o_c05 = false, o_c09 = false, o_c12 = false, o_c14 = false, o_c15 = false, o_c17 = false;
  std::vector<std::string> results;     // per-run result transcript (C07 double run)
  std::vector<std::string> shared;      // read-only input strings shared by several tasks
  uint64_t hist_sig = 0xcbf29ce484222325ULL;
  bool nontrivial = false;
  PatSet *cur_pat = nullptr;            // phrase patterns of the op in flight (release hook)
  int cur_pat_task = -1;
};
static Run *g_run;
extern "C" { extern char sim_static_crypt_ctx[] __attribute__((weak)); }   // crypt()'s private object (objcopy gives it this name)

static const size_t CD = sizeof(struct crypt_data);
static const size_t OBJ_PAD = 1024, OBJ_BLOCK = sizeof(struct crypt_data) + 2 * OBJ_PAD + 64;   // room for argument strings right before/after the object
static bool all_zero(const void *p, size_t n) NOASAN;
static bool all_zero(const void *p, size_t n) {
  const unsigned char *c = (const unsigned char *)p;
  for (size_t i = 0; i < n; i++) if (c[i]) return false;
  return true;
}
// "Garbage" an application may have left in its object: mostly uniformly random bytes, sometimes text-like (one byte
// value repeated, decimal digits, printable ASCII) - leftovers of real programs are rarely uniform noise.
static void garbage_fill(void *p, size_t n, uint64_t seed) {
  unsigned char *c = (unsigned char *)p; uint64_t x = seed * 0x2545F4914F6CDD1DULL + 12345;
  unsigned style = (unsigned)(splitmix64(x) % 8);
  if (style == 5) { memset(c, (int)(splitmix64(x) & 0xff), n); return; }
  for (size_t i = 0; i < n; i += 8) { uint64_t w = splitmix64(x); memcpy(c + i, &w, n - i < 8 ? n - i : 8); }
  if (style == 6) for (size_t i = 0; i < n; i++) c[i] = (unsigned char)('0' + c[i] % 10);
  if (style == 7) for (size_t i = 0; i < n; i++) c[i] = (unsigned char)(0x20 + c[i] % 0x5f);
}
static bool is_caller_owned(const Run &r, const void *p) {
  for (int t = 0; t < r.ntasks; t++) {
    for (auto &s : r.tc[t].slots) if (s.data == p) return true;
    for (void *q : r.tc[t].owned_strings) if (q == p) return true;
  }
  return false;
}
static Slot *slot_of(Run &r, const void *p) {
  for (int t = 0; t < r.ntasks; t++) for (auto &s : r.tc[t].slots) if (s.data == p) return &s;
  return nullptr;
}

// release hook: memory leaves the library's hands *now*
static void on_release(int task, const void *p, size_t size, ReqKind how, const Block &b) {
  Run &r = *g_run;
  if (how == RQ_REALLOC || how == RQ_FREE) {
    // C09-4 / C14: an undersized crypt_ra block must be erased over its recorded size before the library lets go of
    // it, whether it grows it with realloc or replaces it with malloc + free
    Slot *s = slot_of(r, p);
    if (s && s->size >= (int)CD && (r.o_c09 || r.o_c14)) stat("incidental_ra_released_a_block_that_was_large_enough");   // a trim or a replacement: no erase clause applies
    if (s && s->size > 0 && s->size < (int)CD && (r.o_c09 || r.o_c14)) {
      size_t n = std::min((size_t)s->size, size);
      stat("probe_growth_from_small_block");
      if (!all_zero(p, n))
        violation(nullptr, "growth-not-erased", task, cur_op(task),
                  vfmt("crypt_ra handed a %zu-byte block (recorded size %d) to %s without erasing it first", size, s->size, how == RQ_FREE ? "free" : "realloc"));
    }
  }
  if (r.o_c09 && r.cur_pat && r.cur_pat_task == task && !b.from_harness) {
    size_t off; const char *enc = r.cur_pat->scan(p, size, &off);
    stat("probe_release_scans");
    if (enc)
      violation(nullptr, "residue-in-released-memory", task, cur_op(task),
                vfmt("%s released by %s still holds the passphrase (%s) at offset %zu of %zu",
                     b.is_map ? "mapping" : "heap block", how == RQ_FREE ? "free" : how == RQ_MUNMAP ? "munmap" : "realloc", enc, off, size));
  }
}

// ================================================================= op execution
struct HashCall {
  bool aliased = false;       // the setting argument was the object's own output field
  std::string kind;
  Bytes phrase, setting;      // actual values at call time
  bool failed = false;
  std::string res;            // string behind a non-NULL return
  bool ret_null = true;
  int err = 0;
  std::string out_str;        // C string in the output field after the call
  bool have_out = false;
};

static std::string objkey(const J &op) {
  std::string k = op.str("k");
  if (k == "crypt") return "static";
  if (k == "crypt_ra") return "slot" + std::to_string(op.i("slot"));
  return "obj" + std::to_string(op.i("obj"));
}

static void sig_add(Run &r, const std::string &s) { r.hist_sig = fnv1a(s, r.hist_sig); r.hist_sig = fnv1a("|", 1, r.hist_sig); }

static void record_result(Run &r, int t, int i, const std::string &text) {
  // the transcript compared by C07's double run carries outcomes only (errno is not part of that property)
  size_t e = text.find(" errno=");
  r.results.push_back(vfmt("t%d.%d %s", t, i, text.substr(0, e).c_str()));
  ev(vfmt("ret t%d op%d %s", t, i, text.c_str()));
}

// ---- scratch-area oracle (C09-1, C15-d)
struct ScratchSnap { std::string reserved, internal; char initialized; bool valid = false; };
static ScratchSnap snap_scratch(const struct crypt_data *cd) {
  ScratchSnap s; s.valid = true;
  s.reserved.assign(cd->reserved, sizeof cd->reserved);
  s.internal.assign(cd->internal, sizeof cd->internal);
  s.initialized = cd->initialized;
  return s;
}
static bool scratch_zero(const struct crypt_data *cd) {
  return all_zero(cd->reserved, sizeof cd->reserved) && all_zero(cd->internal, sizeof cd->internal) && cd->initialized == 0;
}
static bool scratch_same(const struct crypt_data *cd, const ScratchSnap &s) {
  return !memcmp(cd->reserved, s.reserved.data(), sizeof cd->reserved) &&
         !memcmp(cd->internal, s.internal.data(), sizeof cd->internal) && cd->initialized == s.initialized;
}
static bool past_validation_for_sure(const HashCall &c) {
  if (!c.failed) return true;
  if (c.aliased) return false;   // the up-front failure token rewrote the setting the library went on to validate
  if (c.phrase.null || c.setting.null) return false;
  if (c.phrase.b.size() >= CRYPT_MAX_PASSPHRASE_SIZE) return false;
  if (!setting_chars_ok(c.setting.b)) return false;
  return conf_for_prefix(c.setting.b) != nullptr;
}
static void check_scratch(Run &r, int t, int i, const HashCall &c, const struct crypt_data *cd, const ScratchSnap &pre, bool full_object) {
  if (!full_object) return;
  bool z = scratch_zero(cd);
  if (past_validation_for_sure(c)) {
    stat("probe_scratch_must_be_zero");
    if (!z) {
      size_t off = 0; const char *where = "internal";
      if (!all_zero(cd->reserved, sizeof cd->reserved)) where = "reserved";
      else if (cd->initialized) where = "initialized";
      else for (; off < sizeof cd->internal && !cd->internal[off]; off++) {}
      violation(nullptr, "scratch-not-erased", t, i,
                vfmt("%s(%s) got past validation (%s) but data->%s is not all zero afterwards (first non-zero byte at +%zu)",
                     c.kind.c_str(), c.setting.null ? "NULL" : c.setting.b.c_str(), c.failed ? "failed" : "succeeded", where, off));
    }
  } else if (!c.aliased && c.failed && (c.phrase.null || c.setting.null || c.phrase.b.size() >= CRYPT_MAX_PASSPHRASE_SIZE || !setting_chars_ok(c.setting.b))) {
    // NULL argument, over-long phrase, forbidden byte: refused by argument validation whatever the tree's methods are -
    // "and are otherwise untouched".  (Held-out seeded change C09-r9 wipes the areas here, which destroys a key that
    // setkey_r put into the same object.)
    stat("probe_scratch_must_be_untouched");
    if (!scratch_same(cd, pre))
      violation(nullptr, "scratch-written-by-refused-call", t, i,
                vfmt("%s refused the request during argument validation, but internal/reserved/initialized are not what they were before the call%s", c.kind.c_str(), z ? " (they were wiped)" : ""));
  } else {
    stat("probe_scratch_zero_or_untouched");
    if (!z && !scratch_same(cd, pre))
      violation(nullptr, "scratch-partially-written", t, i,
                vfmt("%s: internal/reserved/initialized are neither all zero nor what they were before the call", c.kind.c_str()));
  }
}

// ---- fail-closed oracle (C05-2,3,4)
static bool errno_documented(int e) { return e == EINVAL || e == ERANGE || e == ENOMEM; }
static void check_fail_closed(Run &r, int t, int i, const HashCall &c, long size, const std::set<std::string> &earlier, bool aliased = false) {
  const char *k = c.kind.c_str();
  // 2: return value and errno
  if (c.kind == "crypt_rn" || c.kind == "crypt_ra") {
    if (!c.ret_null)
      violation(nullptr, "failure-returns-pointer", t, i, vfmt("%s must return NULL on failure but returned \"%s\"", k, c.res.c_str()));
  } else {
#if SIM_FAILTOK
    if (!c.ret_null && (c.res.empty() || c.res[0] != '*'))
      violation(nullptr, "failure-returns-hash", t, i, vfmt("%s returned \"%s\" for a request that cannot produce a hash", k, c.res.c_str()));
#else
    if (!c.ret_null)
      violation(nullptr, "failure-returns-pointer", t, i, vfmt("%s must return NULL on failure (failure tokens disabled) but returned \"%s\"", k, c.res.c_str()));
#endif
  }
  // C05 names its three codes; C15 says "a documented error code", and crypt(3) also documents ENOSYS / EOPNOTSUPP
  if (!errno_documented(c.err) && !(r.o_c15 && !r.o_c05 && (c.err == ENOSYS || c.err == EOPNOTSUPP)))
    violation(nullptr, "failure-errno", t, i, vfmt("%s failed with errno=%d, not one of EINVAL/ERANGE/ENOMEM", k, c.err));
  // 3: the token left in the output field
  if (c.have_out) {
    const std::string &o = c.out_str;
    long avail = c.kind == "crypt_rn" ? std::min<long>(size, CRYPT_OUTPUT_SIZE) : CRYPT_OUTPUT_SIZE;
    if (avail >= 3) {
      if (o.empty() || o[0] != '*' || o.size() >= 13)
        violation(nullptr, "failure-token", t, i, vfmt("%s failed but output holds \"%.40s\" (must start with '*' and be shorter than 13)", k, o.c_str()));
      else if (!c.setting.null && o == c.setting.b && !aliased)   // (a setting that IS the output field is overwritten by the token: nothing to differ from)
        violation(nullptr, "failure-token", t, i, vfmt("%s: failure token \"%s\" equals the setting", k, o.c_str()));
      else {
        RefOut rr = RefClient::get().hash(Bytes("x"), Bytes(o));
        if (rr.bad) crash_exit("machinery", ("refsrv: " + rr.raw).c_str());
        if (rr.ok) violation(nullptr, "failure-token", t, i, vfmt("failure token \"%s\" is accepted as a setting", o.c_str()));
      }
    } else if (avail == 2) {
      if (o != "*") violation(nullptr, "failure-token", t, i, vfmt("crypt_rn(size=2) must leave \"*\" but left \"%.8s\"", o.c_str()));
    } else if (avail == 1) {
      if (!o.empty()) violation(nullptr, "failure-token", t, i, "crypt_rn(size=1) must leave the empty string");
    }
    // 4: no stale hash
    if (!o.empty() && earlier.count(o))
      violation(nullptr, "stale-hash", t, i, vfmt("%s failed but the output field still holds an earlier call's hash \"%s\"", k, o.c_str()));
  }
  if (!c.ret_null && earlier.count(c.res))
    violation(nullptr, "stale-hash", t, i, vfmt("%s failed but returned an earlier call's hash \"%s\"", k, c.res.c_str()));
}

// ---- entropy oracle pieces (C12 / C09-5)

struct OpFaultView {
  int injected = 0;            // failures we injected that the library saw
  int effective = 0;           // ... not counting a refused huge-page attempt that the plain retry made good
  int hugetlb_fallbacks = 0;
  int soft = 0;                // failed memory system calls other than the four the statement names (madvise, mlock, ...)
  bool munmap_failed = false;
  std::string desc;
};
static OpFaultView fault_view(int t) {
  OpFaultView v;
  auto &rq = MemLayer::get().op_reqs[t];
  static const char *kn[] = {"malloc", "realloc", "free", "mmap", "munmap", "memory-syscall"};
  for (size_t a = 0; a < rq.size(); a++) {
    if (!rq[a].failed) continue;
    bool made_good = false;
    if (rq[a].kind == RQ_MMAP && rq[a].hugetlb)
      for (size_t b = a + 1; b < rq.size(); b++)
        // (the retry may itself use huge pages of another size; a length rounded up to a multiple of the page size H is
        // below size + H, hence at most twice the size for any region the attempt makes sense for)
        if (rq[b].kind == RQ_MMAP && !rq[b].failed && rq[b].size <= rq[a].size && rq[a].size <= 2 * rq[b].size + (2u << 20)) { made_good = true; break; }
    if (rq[a].injected) v.injected++;
    if (rq[a].kind == RQ_SYSCALL) { v.soft++; continue; }   // not one of malloc/realloc/mmap/munmap: the statement does not say the call must fail
    if (made_good) { v.hugetlb_fallbacks++; continue; }
    v.effective++;
    if (rq[a].kind == RQ_MUNMAP) v.munmap_failed = true;
    v.desc += vfmt("%s#%d ", kn[rq[a].kind], rq[a].k);
  }
  return v;
}

// A block that the library's own static data still points into is not leaked: the library keeps it (a cache, a pool)
// and can still reach, reuse and release it.  The statements forbid leaks, not retention; counted, never a verdict.
NOASAN static bool retained_by_library_static(uintptr_t p, size_t n) {
  const char *sec[2][2] = {{__start_libdata, __stop_libdata}, {__start_libbss, __stop_libbss}};
  for (auto &sc : sec) {
    if (!sc[0]) continue;
    uintptr_t a = ((uintptr_t)sc[0] + 7) & ~(uintptr_t)7, e = (uintptr_t)sc[1];
    for (; a + 8 <= e; a += 8) { uintptr_t w = *(const volatile uintptr_t *)a; if (w >= p && w < p + n) return true; }
  }
  return false;
}
static void leak_check(Run &r, int t, int i, const char *when) {
  for (auto &kv : MemLayer::get().live) {
    const Block &b = kv.second;
    if (b.from_harness || b.release_refused || b.task != t) continue;   // other tasks' blocks may be in flight
    if (is_caller_owned(r, (const void *)kv.first)) continue;
    if (retained_by_library_static(kv.first, b.size)) { stat("incidental_block_retained_by_library_static"); continue; }
    violation(nullptr, "leak", t, i, vfmt("%s of %zu bytes allocated by the library in t%d op%d is still live %s and belongs to nobody",
                                          b.is_map ? "mapping" : "heap block", b.size, b.task, b.op, when));
    return;
  }
}

// a resource the memory ledger does not see: descriptors.  No API call may return with more of them open.
#include <fcntl.h>
static int count_open_fds() { int n = 0; for (int fd = 0; fd < 192; fd++) if (fcntl(fd, F_GETFD) != -1) n++; return n; }

// Strings placed so that their terminator is the last byte of a page and the next page is inaccessible: the library
// may read exactly the string.  (Legal placement; a result that changes, or a fault, means the call looks beyond it.)
static const char *guard_place(const std::string &str, int which) {
  static thread_local char *area[2];
  const size_t PG = 4096, span = 2 * PG;   // strings are < 4 KiB here
  if (!area[which]) {
    char *m = (char *)mmap(nullptr, span + PG, PROT_READ | PROT_WRITE, MAP_PRIVATE | MAP_ANONYMOUS, -1, 0);
    if (m == MAP_FAILED) crash_exit("machinery", "guard mmap");
    mprotect(m + span, PG, PROT_NONE);
    area[which] = m;
  }
  if (str.size() + 1 > span) return nullptr;
  char *dst = area[which] + span - (str.size() + 1);
  memcpy(dst, str.c_str(), str.size() + 1);
  return dst;
}

// hashing entry points ------------------------------------------------------
static void exec_hash(Run &r, int t, int i, const J &op) {
  TaskCtx &tc = r.tc[t];
  HashCall c; c.kind = op.str("k");
  long size = op.has("size") ? (long)op.i("size") : (long)CD;
  bool full_object = true;
  struct crypt_data *cd = nullptr;
  DataObj *obj = nullptr; Slot *slot = nullptr;
  char *small = nullptr; size_t small_alloc = 0;
  static const size_t GUARD = 32;

  if (c.kind == "crypt_r" || c.kind == "crypt_rn") {
    obj = &tc.objs.at((size_t)op.i("obj")); cd = obj->cd;
    if (c.kind == "crypt_rn" && size != (long)CD) {
      if (size < (long)CD) {
        full_object = false;
        small_alloc = (size > 0 ? (size_t)size : 0) + GUARD;
        small = (char *)malloc(small_alloc);
        garbage_fill(small, small_alloc, (uint64_t)op.i("gseed", 7) + 99);
        thr::region_add(small, small_alloc, t, "small-buffer");
      }
    }
  } else if (c.kind == "crypt_ra") {
    slot = &tc.slots.at((size_t)op.i("slot"));
  } else if (sim_static_crypt_ctx) {
    cd = (struct crypt_data *)sim_static_crypt_ctx;   // crypt(): same erasure and residue oracles as for caller objects
  }

  // arguments
  c.phrase = Bytes::from_json(op.at("ph"));
  c.setting = Bytes::from_json(op.at("st"));
  const char *php = c.phrase.cstr(), *stp = c.setting.cstr();
  // read-only inputs shared between tasks (legal): the very same buffer is handed to several callers
  if (op.has("phs") && (size_t)op.i("phs") < r.shared.size()) { c.phrase = Bytes(r.shared[(size_t)op.i("phs")]); php = r.shared[(size_t)op.i("phs")].c_str(); stat("probe_shared_readonly_input"); }
  if (op.has("sts") && (size_t)op.i("sts") < r.shared.size()) { c.setting = Bytes(r.shared[(size_t)op.i("sts")]); stp = r.shared[(size_t)op.i("sts")].c_str(); stat("probe_shared_readonly_input"); }
  std::string stsrc = op.str("stsrc", "lit");
  // (Arguments that live inside an UNDERSIZED crypt_ra block are not generated: the unchanged library wipes and
  // reallocates that block before it reads them - with a moving realloc ASan reports a use-after-free in
  // make_failure_token - so that is a caller error, not a history to explore.  Seeded change C15-r4a lives there.)
  const bool args_in_slot_block = false;
  bool phrase_in_output = false;
  if (op.i("phout") && obj && cd && full_object && !c.phrase.null && c.phrase.b.size() < sizeof cd->output && stsrc != "out") {
    // the caller keeps the passphrase in the object's output field and passes a pointer to it.  Nothing is promised
    // about the result (today the up-front failure token overwrites its first bytes), so no result is expected -
    // but failures stay fail-closed and the erasure rules hold: the library must not park copies elsewhere in the object.
    memcpy(cd->output, c.phrase.b.c_str(), c.phrase.b.size() + 1); php = cd->output; phrase_in_output = true; obj->output_tainted = true; stat("probe_phrase_aliases_output");
  }
  bool aliased = false;
  if (stsrc == "out") {
    // the setting is the object's own output field (what `crypt (pw, crypt (other, salt))` does with the static object).
    // Whether the library supports that is its business - today the up-front failure token clobbers it and the call
    // fails - but it must stay fail-closed, and if it succeeds the result must be the hash for the string that was there.
    const struct crypt_data *src = cd ? cd : (slot && slot->data && slot->size >= (int)CD) ? (const struct crypt_data *)slot->data : nullptr;
    const std::string &st_now = c.kind == "crypt" ? r.static_state : obj ? obj->state : slot ? slot->state : std::string("fresh");
    // only when the library itself wrote that field earlier in this history (never application garbage)
    if (src && full_object && (st_now == "success" || st_now == "failure") && memchr(src->output, 0, sizeof src->output)) { stp = src->output; c.setting = Bytes(std::string(stp)); aliased = true; c.aliased = true; stat("probe_setting_aliases_output"); }
  }
  if (stsrc == "gs" && tc.last_gensalt_static) {   // crypt_gensalt's static result passed straight on
    stp = tc.last_gensalt_static; c.setting = Bytes(std::string(stp));
    stat("probe_gensalt_static_passed_to_crypt");
  }
  if (obj && cd && full_object && op.i("phin") && !c.phrase.null && c.phrase.b.size() < sizeof cd->input) {
    memcpy(cd->input, c.phrase.b.c_str(), c.phrase.b.size() + 1); php = cd->input; stat("probe_phrase_in_object"); if (obj) obj->input_tainted = true;
  }
  if (obj && cd && full_object && op.i("stin") && !c.setting.null && c.setting.b.size() < sizeof cd->setting && stsrc != "gs") {
    memcpy(cd->setting, c.setting.b.c_str(), c.setting.b.size() + 1); stp = cd->setting; stat("probe_setting_in_object"); if (obj) obj->setting_tainted = true;
  }

  // argument strings that touch the object without overlapping it: the terminator is the last byte before the
  // object, or the string starts at the first byte behind it (struct { char pw[16]; struct crypt_data cd; })
  if (op.has("adj") && obj && cd && full_object) {
    std::string how = op.str("adj");
    const std::string *src = how[0] == 'p' ? (c.phrase.null ? nullptr : &c.phrase.b) : (c.setting.null ? nullptr : &c.setting.b);
    bool is_lit = how[0] == 'p' ? php == c.phrase.cstr() : stp == c.setting.cstr();
    if (src && is_lit && src->size() + 1 <= OBJ_PAD) {
      char *dst = how.find("before") != std::string::npos ? (char *)cd - (src->size() + 1) : (char *)cd + CD;
      memcpy(dst, src->c_str(), src->size() + 1);
      if (how[0] == 'p') php = dst; else stp = dst;
      stat("probe_argument_adjacent_to_object");
    }
  }
  if (op.i("guard") && !thr::enabled) {
    if (php && php == c.phrase.cstr()) { const char *q = guard_place(c.phrase.b, 0); if (q) { php = q; stat("probe_phrase_at_page_end"); } }
    if (stp && stp == c.setting.cstr()) { const char *q = guard_place(c.setting.b, 1); if (q) { stp = q; stat("probe_setting_at_page_end"); } }
  }
  // application scribbles over the scratch area (legal: the object is the caller's)
  std::string pre = op.str("pre", "keep");
  if (obj && cd && full_object && pre != "keep") {   // only the caller's own objects: crypt()'s static one is not the application's to write
    if (pre == "zero") { memset(cd->reserved, 0, sizeof cd->reserved); cd->initialized = 0; memset(cd->internal, 0, sizeof cd->internal); }
    else if (pre == "garbage") { garbage_fill(cd->reserved, sizeof cd->reserved, (uint64_t)op.i("gseed") + 1); cd->initialized = (char)(op.i("gseed") | 1); garbage_fill(cd->internal, sizeof cd->internal, (uint64_t)op.i("gseed") + 2); }
    else if (pre == "garbage-all") {
      std::string keep_in(cd->input, sizeof cd->input), keep_st(cd->setting, sizeof cd->setting);
      garbage_fill(cd, CD, (uint64_t)op.i("gseed") + 3);
      if (php == cd->input) memcpy(cd->input, keep_in.data(), sizeof cd->input);
      if (stp == cd->setting) memcpy(cd->setting, keep_st.data(), sizeof cd->setting);
      if (obj) { obj->input_tainted = php == cd->input; obj->setting_tainted = stp == cd->setting; }
    }
    if (obj) obj->key_state = pre == "zero" ? (obj->key_state ? 2 : 0) : 3;
    stat("probe_scratch_scribbled_" + pre);
  }
  ScratchSnap snap; if (cd && full_object) snap = snap_scratch(cd);

  std::string okey = objkey(op);
  std::set<std::string> *earlier = c.kind == "crypt" ? &r.static_returned : obj ? &obj->returned : slot ? &slot->returned : nullptr;
  std::string *state = c.kind == "crypt" ? &r.static_state : obj ? &obj->state : slot ? &slot->state : nullptr;
  std::string prior = state ? *state : "fresh";
  sig_add(r, c.kind + ":" + op.str("m", "?") + ":" + okey + ":" + prior + ":" + (obj ? std::to_string(obj->align) : "-") + ":" + op.str("cls", "valid"));

  // C09 patterns for this phrase
  PatSet pat;
  bool scan_secret = (r.o_c09 && !c.phrase.null && c.phrase.b.size() >= 6 && op.i("scan", 1));   // (6-7 bytes: searched as a whole, see PatSet::build)
  if (scan_secret) { pat.build(c.phrase.b); r.cur_pat = &pat; r.cur_pat_task = t; }

  std::vector<int> faults; for (auto &f : op.at("faults").a) faults.push_back((int)f.n);
  MemLayer::get().begin_op(t, faults, op.i("huge_ok") != 0);
  EntropyDev::get().begin_op(t);
  void *slot_before = slot ? slot->data : nullptr; int slot_size_before = slot ? slot->size : 0;
  ev(vfmt("call t%d op%d %s ph=%s st=%s size=%ld obj=%s prior=%s", t, i, c.kind.c_str(),
          c.phrase.null ? "NULL" : hexenc(c.phrase.b).c_str(), c.setting.null ? "NULL" : hexenc(c.setting.b).c_str(), size, okey.c_str(), prior.c_str()));

  char *ret = nullptr; int err = 0;
  thr::api_boundary(t, i, true);
  int errno_at_entry = op.i("errno_keep") ? tc.last_errno : (int)op.i("errno0", 0);   // errno_keep: whatever the previous call left (callers rarely reset it)
  int fds_before = count_open_fds();
  DeepRange dr = deepcall(t, [&]() {
    errno = errno_at_entry;      // arbitrary at entry, as in any real caller
    if (c.kind == "crypt") ret = _crypt_crypt(php, stp);
    else if (c.kind == "crypt_r") ret = _crypt_crypt_r(php, stp, cd);
    else if (c.kind == "crypt_rn") ret = _crypt_crypt_rn(php, stp, small ? (void *)small : (void *)cd, (int)size);
    else ret = _crypt_crypt_ra(php, stp, &slot->data, &slot->size);
    err = errno;
  }, VARIANT[0] == 'O');
  thr::api_boundary(t, i, false);
  r.cur_pat = nullptr;
  MemLayer::get().end_op(t);
  if (r.ntasks == 1 && count_open_fds() != fds_before)
    violation(nullptr, "fd-leak", t, i, vfmt("%s returned with %d more file descriptor(s) open than before the call", c.kind.c_str(), count_open_fds() - fds_before));

  c.ret_null = ret == nullptr; c.err = err; tc.last_errno = err;
  if (ret) c.res = ret;
  c.failed = c.ret_null || (!c.res.empty() && c.res[0] == '*');
  // where is the output field?
  const char *outp = nullptr; size_t outcap = 0;
  if (c.kind == "crypt") { outp = ret; outcap = ret ? CRYPT_OUTPUT_SIZE : 0; }
  else if (small) { outp = small; outcap = size > 0 ? std::min<size_t>((size_t)size, CRYPT_OUTPUT_SIZE) : 0; }
  else if (cd) { outp = cd->output; outcap = CRYPT_OUTPUT_SIZE; }
  else if (slot && slot->data && slot->size >= (int)CD) { outp = ((struct crypt_data *)slot->data)->output; outcap = CRYPT_OUTPUT_SIZE; cd = (struct crypt_data *)slot->data; }
  if (outp && outcap) { c.have_out = true; c.out_str.assign(outp, strnlen(outp, outcap)); }

  record_result(r, t, i, vfmt("%s -> %s errno=%d", c.kind.c_str(), c.ret_null ? "NULL" : ("\"" + c.res + "\"").c_str(), c.failed ? err : 0));
  stat(c.failed ? "calls_failed" : "calls_succeeded");
  stat("op_" + c.kind);
  if (!c.failed) stat("hashed_" + op.str("m", "?"));
  stat("class_" + op.str("cls", "valid") + (c.failed ? "_failed" : "_succeeded"));   // (a label of the generator: reach statistics only, never a verdict)
  if (c.failed && prior == "success") stat("probe_failure_after_success_same_object");
  if (c.failed && prior == "failure") stat("probe_failure_after_failure_same_object");
  if (!c.failed && prior == "failure") stat("probe_success_after_failure_same_object");

  OpFaultView fv = fault_view(t);
  if (fv.injected) stat("ops_with_injected_fault");
  if (fv.hugetlb_fallbacks) stat("probe_hugepage_fallback");

  // ---------------- expected outcome
  bool size_ok = !(c.kind == "crypt_rn" && size < (long)CD);
  bool must_fail = !size_ok || c.phrase.null || c.setting.null || (!c.phrase.null && c.phrase.b.size() >= CRYPT_MAX_PASSPHRASE_SIZE) ||
                   (!c.setting.null && !setting_chars_ok(c.setting.b)) || fv.effective > 0 ||
                   // classes the statement itself names, decided from the actual argument (never from a label):
                   // '$'-introduced prefix that hashes.conf does not list as enabled; curated, certainly malformed parameters
                   (!c.setting.null && !c.setting.b.empty() && c.setting.b[0] == '$' && !conf_for_prefix(c.setting.b)) ||
                   (!c.setting.null && (is_curated_malformed(c.setting.b) || numeric_field_malformed(c.setting.b) || sha1crypt_cannot_fit(c.setting.b) || open_prefix_tag_unknown(c.setting.b)));
  // a crypt_ra whose block could not be (re)allocated never reaches the hash
  RefOut exp;
  if (!must_fail) {
    exp = RefClient::get().hash(c.phrase, c.setting);
    if (exp.bad) crash_exit("machinery", ("refsrv: " + exp.raw).c_str());
  }
  bool exp_fail = must_fail || !exp.ok;
  if (fv.soft > 0 && c.failed && !exp_fail) { exp_fail = true; stat("call_failed_after_memory_syscall_fault"); }   // may fail (cleanly) or carry on

  if (phrase_in_output || args_in_slot_block) {
    stat(c.failed ? "aliased_args_call_failed" : "aliased_args_call_succeeded");
  } else if (r.o_ref || r.o_c05 || r.o_c15) {
    if (aliased && c.failed && !exp_fail) {
      stat("aliased_setting_call_failed_closed");     // legal: see above
    } else if (exp_fail != c.failed) {
      if (fv.effective > 0 && !c.failed)
        violation(nullptr, "hash-despite-failed-allocation", t, i, vfmt("%s returned \"%s\" although %sfailed", c.kind.c_str(), c.res.c_str(), fv.desc.c_str()));
      else
        violation(nullptr, "outcome", t, i, vfmt("%s(%s, %s): %s here, but %s when evaluated alone on a fresh object%s", c.kind.c_str(),
                                                  c.phrase.null ? "NULL" : ("\"" + hexenc(c.phrase.b).substr(0, 24) + "..\"").c_str(),
                                                  c.setting.null ? "NULL" : c.setting.b.c_str(), c.failed ? "failed" : ("returned \"" + c.res + "\"").c_str(),
                                                  exp_fail ? "fails" : ("returns \"" + exp.str + "\"").c_str(), must_fail ? " (must fail by the statement)" : ""));
    } else if (c.failed && !must_fail && exp.err && c.err != exp.err && fv.effective == 0) {
      // same request, same failure - but another errno than in a fresh process: the code picked depends on what an
      // earlier call (or the caller) left in errno.  C15's "the next call behaves normally" covers it after a fault;
      // elsewhere it is only counted (no statement promises which of the documented codes is used).
      stat("incidental_failure_errno_differs_from_fresh_process");
      if (r.o_c15 && op.i("errno_keep"))
        violation(nullptr, "errno-from-earlier-call", t, i, vfmt("%s(.., %s) failed with errno=%d; the same request in a fresh process fails with errno=%d (errno at entry was %d, left by the previous call)",
                                                                 c.kind.c_str(), c.setting.null ? "NULL" : c.setting.b.c_str(), c.err, exp.err, errno_at_entry));
    } else if (!c.failed && c.res != exp.str) {
      violation(nullptr, "result", t, i, vfmt("%s(.., %s) returned \"%s\" here but \"%s\" when evaluated alone on a fresh object", c.kind.c_str(), c.setting.b.c_str(), c.res.c_str(), exp.str.c_str()));
    } else if (!c.failed && c.have_out && c.out_str != c.res) {
      violation(nullptr, "result", t, i, vfmt("%s returned \"%s\" but the output field holds \"%s\"", c.kind.c_str(), c.res.c_str(), c.out_str.c_str()));
    }
  }
  // ---------------- C17, last sentence: for salt 0 the block function of the DES-based hashes is plain DES
  if (r.o_c17 && !c.failed && !c.phrase.null && c.phrase.b.size() <= 8 && !c.setting.null) {
    const std::string &st = c.setting.b; unsigned long cnt = 0; size_t pre = 0;
    static const char a64[] = "./0123456789ABCDEFGHIJKLMNOPQRSTUVWXYZabcdefghijklmnopqrstuvwxyz";
    if (st.size() >= 2 && st[0] == '.' && st[1] == '.' && (st.size() == 2 || st.size() == 13)) { cnt = 25; pre = 2; }
    else if (st.size() >= 9 && st[0] == '_' && !st.compare(5, 4, "....")) {
      bool okc = true; for (int q = 0; q < 4; q++) { const char *z = strchr(a64, st[(size_t)(1 + q)]); if (!z || !st[(size_t)(1 + q)]) { okc = false; break; } cnt |= (unsigned long)(z - a64) << (6 * q); }
      if (okc && cnt >= 1 && cnt <= 400) pre = 9; else cnt = 0;
    }
    if (cnt && c.res.size() == pre + 11 && !c.res.compare(0, pre, st, 0, pre)) {
      unsigned char key[8] = {0}, blk[8] = {0}, out[8];
      for (size_t q = 0; q < c.phrase.b.size(); q++) key[q] = (unsigned char)((unsigned char)c.phrase.b[q] << 1);
      for (unsigned long it = 0; it < cnt; it++) { des_model_crypt(key, blk, out, false); memcpy(blk, out, 8); }
      std::string e; const unsigned char *sp = blk, *end = blk + 8;
      for (;;) { unsigned c1 = *sp++; e += a64[c1 >> 2]; c1 = (c1 & 3) << 4; if (sp >= end) { e += a64[c1]; break; }
                 unsigned c2 = *sp++; c1 |= c2 >> 4; e += a64[c1]; c1 = (c2 & 15) << 2; if (sp >= end) { e += a64[c1]; break; }
                 c2 = *sp++; c1 |= c2 >> 6; e += a64[c1]; e += a64[c2 & 63]; if (sp >= end) break; }
      stat("probe_des_hash_salt0_checked_against_model");
      if (c.res.substr(pre) != e)
        violation(nullptr, "des-hash-salt0", t, i, vfmt("%s(.., %s): with salt 0 the hash is DES applied %lu times to the zero block under the passphrase's key; the model gives \"%s\", the library returned \"%s\"",
                                                        c.kind.c_str(), st.c_str(), cnt, e.c_str(), c.res.substr(pre).c_str()));
    }
  }
  // ---------------- a "successful" result must be a hash of the passphrase
  // A request that cannot produce a hash must fail (C05).  One way not to produce a hash while looking successful is to
  // return the setting, or a prefix of it, without a digest (finding F1 did that for long salts): such a string is the
  // same for every passphrase.  Sampled: every call with an unusual setting, one in eight ordinary ones.
  if (r.o_c05 && !c.failed && !must_fail && !phrase_in_output && !args_in_slot_block && !aliased && exp.ok && c.res == exp.str && !c.phrase.null) {
    uint64_t h = 1469598103934665603ULL; for (unsigned char ch : c.phrase.b + "|" + c.setting.b) h = (h ^ ch) * 1099511628211ULL;
    if (op.str("cls") != "valid" || (h >> 17) % 8 == 0) {
      std::string ph2 = c.phrase.b;
      if (ph2.empty()) ph2 = "x"; else { ph2[0] = (char)(ph2[0] ^ 1); if (!ph2[0]) ph2[0] = 3; }
      RefOut e2 = RefClient::get().hash(Bytes(ph2), c.setting);
      if (e2.bad) crash_exit("machinery", ("refsrv: " + e2.raw).c_str());
      stat("probe_passphrase_dependence_checks");
      if (e2.ok && e2.str == c.res)
        violation(nullptr, "not-a-hash", t, i, vfmt("%s(.., %s) returned \"%s\" - and returns the very same string for a passphrase that differs in its first byte: the request did not produce a hash, yet it did not fail",
                                                    c.kind.c_str(), c.setting.b.c_str(), c.res.c_str()));
    }
  }
  // ---------------- fail-closed
  if ((r.o_c05 || r.o_c15) && exp_fail && c.failed && earlier) {
    if (small && size <= 0) {
      // nothing may have been written
      std::string ref(small_alloc, '\0'); garbage_fill(&ref[0], small_alloc, (uint64_t)op.i("gseed", 7) + 99);
      if (memcmp(ref.data(), small, small_alloc)) violation(nullptr, "failure-token", t, i, vfmt("crypt_rn(size=%ld) wrote to the buffer", size));
      c.have_out = false;
    }
    check_fail_closed(r, t, i, c, size, *earlier, aliased);
    if (r.o_c15 && fv.effective > 0) stat("probe_fault_reported_cleanly");
  }
  if (small) {  // guard bytes behind a short buffer
    std::string ref(small_alloc, '\0'); garbage_fill(&ref[0], small_alloc, (uint64_t)op.i("gseed", 7) + 99);
    size_t from = size > 0 ? (size_t)size : 0;
    if (memcmp(ref.data() + from, small + from, small_alloc - from))
      violation(nullptr, "buffer-overrun", t, i, vfmt("crypt_rn(size=%ld) wrote past the end of the buffer", size));
  }
  // ---------------- scratch erased
  if ((r.o_c09 || r.o_c15) && cd && full_object && snap.valid) check_scratch(r, t, i, c, cd, snap, true);
  if ((r.o_c09 || r.o_c15) && c.kind == "crypt_ra" && slot && slot->data && slot->size >= (int)CD && past_validation_for_sure(c) && !(fv.effective > 0 && slot->data == slot_before && c.ret_null && fv.desc.find("realloc") != std::string::npos)) {
    if (!scratch_zero((struct crypt_data *)slot->data))
      violation(nullptr, "scratch-not-erased", t, i, "crypt_ra: internal/reserved/initialized not all zero after a call that got past validation");
  }
  // ---------------- passphrase residue
  if (scan_secret) {
    size_t off; const char *enc = nullptr;
    if (cd && full_object) {
      // everything but what the caller put into input/setting
      struct Rg { const char *p; size_t n; const char *name; } rg[] = {
          {cd->output, phrase_in_output || (obj && obj->output_tainted) ? 0 : sizeof cd->output, "output"}, {cd->setting, (obj && obj->setting_tainted) || stp == cd->setting ? 0 : sizeof cd->setting, "setting"},
          {cd->input, (obj && obj->input_tainted) || php == cd->input ? 0 : sizeof cd->input, "input"},
          {cd->reserved, sizeof cd->reserved + 1 + sizeof cd->internal, "reserved/initialized/internal"}};
      for (auto &g : rg) if (g.n && (enc = pat.scan(g.p, g.n, &off))) {
        violation(nullptr, "residue-in-object", t, i, vfmt("data->%s holds the passphrase (%s) at +%zu after %s returned", g.name, enc, off, c.kind.c_str())); break; }
    }
    if (small && size > 0 && (enc = pat.scan(small, (size_t)size, &off)))
      violation(nullptr, "residue-in-object", t, i, vfmt("short crypt_rn buffer holds the passphrase (%s) at +%zu", enc, off));
    for (auto &kv : MemLayer::get().live) {
      if (kv.second.from_harness && !(slot && slot->data == (void *)kv.first)) continue;
      if ((enc = pat.scan((const void *)kv.first, kv.second.size, &off))) {
        violation(nullptr, "residue-in-live-allocation", t, i, vfmt("live %s of %zu bytes holds the passphrase (%s) at +%zu after %s returned", kv.second.is_map ? "mapping" : "heap block", kv.second.size, enc, off, c.kind.c_str())); break; }
    }
#ifdef SIM_O0
    if ((enc = pat.scan(dr.lo, (size_t)(dr.hi - dr.lo), &off))) {
      violation(nullptr, "residue-on-stack", t, i, vfmt("stack region used by %s(%s) holds the passphrase (%s) %zu bytes below the caller's frame: ..%s..", c.kind.c_str(), op.str("m", "?").c_str(), enc, (size_t)(dr.hi - dr.lo) - off, hexdump_raw(dr.lo + off - 8, 32).c_str()));
    }
    stat("probe_stack_scans");
#endif
    stat("probe_residue_scans");
    stat("scanned_" + op.str("m", "?") + (c.failed ? "_failing" : ""));
  }
  (void)dr;
  // ---------------- crypt_ra protocol (C14)
  if (c.kind == "crypt_ra" && (r.o_c14 || r.o_c15)) {
    bool changed = slot->data != slot_before || slot->size != slot_size_before;
    if (changed || slot->data) {
      const Block *b = slot->data ? MemLayer::get().find(slot->data) : nullptr;
      if (changed) {
        stat("probe_ra_block_changed");
        if (!slot->data) violation(nullptr, "ra-protocol", t, i, "crypt_ra set *data to NULL");
        else if (!b || b->is_map) violation(nullptr, "ra-protocol", t, i, "crypt_ra left *data pointing at something that is not a live malloc block");
        else if (slot->size < (int)CD || (size_t)slot->size > b->size)
          violation(nullptr, "ra-protocol", t, i, vfmt("crypt_ra left *size=%d for a block of %zu bytes (need %zu <= *size <= block)", slot->size, b->size, CD));
        else {
          const struct crypt_data *nd = (const struct crypt_data *)slot->data;
          bool had_to_grow = !slot_before || slot_size_before < (int)CD;
          // zero-initialised after growth: everything but the output field (which now holds the result or the token)
          if (!had_to_grow) stat("incidental_ra_changed_a_block_that_was_large_enough");   // within the statement: no zero clause applies
          else if (!all_zero(nd->setting, CD - offsetof(struct crypt_data, setting)))
            violation(nullptr, "ra-not-zeroed", t, i, "crypt_ra grew the block but the new block is not zero-initialised outside its output field");
          else {
            // ... and inside the output field everything behind the string the call left there
            size_t l = strnlen(nd->output, sizeof nd->output);
            if (!all_zero(nd->output + l, sizeof nd->output - l))
              violation(nullptr, "ra-not-zeroed", t, i, vfmt("crypt_ra grew the block but its output field holds non-zero bytes behind the %zu-character result (uninitialised or stale memory)", l));
          }
        }
        if (slot_before && slot->data != slot_before && MemLayer::get().find(slot_before) && !r.plan.at("env").i("realloc_move")) {}
      } else if (slot->data && !b) {
        violation(nullptr, "ra-protocol", t, i, "crypt_ra kept *data but the block is no longer live (freed behind the caller's back)");
      }
      if (!c.ret_null && slot->data && !((const char *)ret >= (const char *)slot->data && (const char *)ret < (const char *)slot->data + slot->size))
        violation(nullptr, "ra-protocol", t, i, "crypt_ra returned a pointer outside [*data, *data + *size)");
    }
    bool needed_growth = !slot_before || slot_size_before < (int)CD;
    // (a failing call may leave *data unchanged - "either unchanged or ..." - whether or not it got as far as allocating;
    // a call that returns a result must have a block to return it in)
    if (needed_growth && !changed && fv.effective == 0 && !c.failed)
      violation(nullptr, "ra-protocol", t, i, vfmt("crypt_ra was given (%s, %d) and returned a result without allocating", slot_before ? "block" : "NULL", slot_size_before));
    if (needed_growth && !changed && fv.effective == 0 && c.failed) stat("incidental_ra_failed_without_allocating");
    if (needed_growth && changed) stat("probe_ra_growth");
  }
  // ---------------- leaks (C08-3, C14, C15-c)
  leak_check(r, t, i, "after the call returned");

  // model/state updates (a crypt_rn call on a separate short buffer did not touch the object)
  if (state && full_object) *state = c.failed ? "failure" : "success";
  if (earlier && !c.failed && full_object) earlier->insert(c.res);
  if (obj && full_object && obj->key_state != 3) obj->key_state = obj->key_state ? 2 : 0;   // hashing wipes the scratch area that held setkey_r's schedule
  if (obj && full_object && obj->key_state == 3 && scratch_zero(obj->cd)) obj->key_state = 2;
  if (small) { thr::region_del(small); free(small); }
}

// gensalt family --------------------------------------------------------------
static void exec_gensalt(Run &r, int t, int i, const J &op) {
  TaskCtx &tc = r.tc[t];
  std::string kind = op.str("k");
  Bytes prefix = Bytes::from_json(op.at("pf")), rb = Bytes::from_json(op.at("rb"));
  unsigned long count = (unsigned long)op.i("count");
  int nrb = op.has("nrb") ? (int)op.i("nrb") : (int)rb.b.size();
  if (!rb.null && nrb > (int)rb.b.size()) crash_exit("machinery", "plan offers more random bytes than its buffer holds (a caller error, never a plan)");
  int osz = kind == "gensalt_rn" ? (int)op.i("osz", CRYPT_GENSALT_OUTPUT_SIZE) : CRYPT_GENSALT_OUTPUT_SIZE;
  // the reference evaluates the same entry point (reserved sizes select crypt_gensalt_ra / crypt_gensalt in refsrv)
  int ref_osz = kind == "gensalt_ra" ? -2000000001 : kind == "gensalt" ? -2000000002 : osz;
  char *outbuf = nullptr;
  if (kind == "gensalt_rn") { outbuf = (char *)malloc((size_t)(osz > 0 ? osz : 1)); garbage_fill(outbuf, (size_t)(osz > 0 ? osz : 1), 5); thr::region_add(outbuf, (size_t)(osz > 0 ? osz : 1), t, "gensalt-out"); }
  sig_add(r, kind + ":" + (prefix.null ? "NULL" : prefix.b) + ":" + (rb.null ? "auto" : "explicit"));

  std::vector<int> faults; for (auto &f : op.at("faults").a) faults.push_back((int)f.n);
  MemLayer::get().begin_op(t, faults, false);
  EntropyDev::get().begin_op(t);
#ifdef SIM_RNG
  g_rngdev.script[t].clear(); g_rngdev.pinned_served[t].clear();
  g_rngdev.fired_in_op[t] = 0; g_rngdev.grb_calls[t] = g_rngdev.grb_ok[t] = 0;
  bool scripted = false;
  for (auto &kv : op.at("script").o) { for (auto &o : kv.second.a) { g_rngdev.script[t][kv.first].push_back(o.s); scripted = true; } }
#endif
  ev(vfmt("call t%d op%d %s pf=%s count=%lu rb=%s nrb=%d osz=%d", t, i, kind.c_str(), prefix.null ? "NULL" : prefix.b.c_str(), count,
          rb.null ? "NULL" : hexenc(rb.b).c_str(), nrb, osz));
  char *ret = nullptr; int err = 0;
  int fds_before = count_open_fds();
  thr::api_boundary(t, i, true);
  // whether the latest draw is still where the library put it is looked at right after the library returns, before any
  // other frame of the harness can overwrite (or, worse, re-create) the dead stack it lived in: plain loads, no calls
  const EntropyDev::Last *ld = &EntropyDev::get().last[t];
  bool drawn_still_there = false;
  DeepRange dr = deepcall(t, [&]() __attribute__((no_sanitize("address"))) {
    errno = (int)op.i("errno0", 0);
    if (kind == "gensalt") ret = _crypt_crypt_gensalt(prefix.cstr(), count, rb.cstr(), nrb);
    else if (kind == "gensalt_rn") ret = _crypt_crypt_gensalt_rn(prefix.cstr(), count, rb.cstr(), nrb, outbuf, osz);
    else ret = _crypt_crypt_gensalt_ra(prefix.cstr(), count, rb.cstr(), nrb);
    err = errno;
    if (ld->n >= 4) {
      const volatile unsigned char *x = (const volatile unsigned char *)ld->buf; bool eq = true, allz = true;
      for (size_t q = 0; q < ld->n; q++) { if (x[q] != ld->bytes[q]) eq = false; if (ld->bytes[q]) allz = false; }
      drawn_still_there = eq && !allz;
    }
  }, VARIANT[0] == 'O');
  thr::api_boundary(t, i, false);
  (void)dr;
  MemLayer::get().end_op(t);
  if (r.ntasks == 1 && count_open_fds() != fds_before)
    violation(nullptr, "fd-leak", t, i, vfmt("%s returned with %d more file descriptor(s) open than before the call", kind.c_str(), count_open_fds() - fds_before));
  bool failed = ret == nullptr;
  std::string res = ret ? ret : "";
  record_result(r, t, i, vfmt("%s -> %s errno=%d", kind.c_str(), failed ? "NULL" : ("\"" + res + "\"").c_str(), failed ? err : 0));
  stat("op_" + kind); stat(failed ? "gensalt_failed" : "gensalt_succeeded");
  if (kind == "gensalt") tc.last_gensalt_static = ret;
  OpFaultView fv = fault_view(t);
  if (fv.injected) stat("ops_with_injected_fault");

  auto &draws = EntropyDev::get().draws[t];
  RefOut exp; bool have_exp = false, exp_fail = false;
  if (fv.effective > 0) { exp_fail = true; have_exp = true; }
  else if (!rb.null) { exp = RefClient::get().gensalt(prefix, count, rb, nrb, ref_osz); have_exp = true; }
  else if (draws.empty()) { exp_fail = true; have_exp = true; }   // auto-entropy requested, nothing drawn: only failure is legitimate
  else if (op.i("noref")) { stat("gensalt_calls_checked_without_reference"); }   // marathon histories: a draw happened; what it was turned into is not looked at
  else {
    // Everything an OS source delivered during this call, and where it put it.  The clause says where a salt's bytes
    // come from; it does not say that one request must deliver them all (a tree may loop over short deliveries,
    // accumulating at buf + filled), nor that every delivered byte is used (a pool, a request rounded up, a discarded
    // health-check draw).  Candidates for "the bytes the salt was made from": every contiguous run of the final memory
    // image of the deliveries (later ones overwrite earlier ones), every complete delivery, and all deliveries in
    // order; for a successful call whose salt matches none of them, also every leading and trailing part of at least
    // hashes.conf's nrbytes.  If no candidate is that long, nothing complete was delivered: only failure is legitimate.
    const HashConf *hc0 = prefix.null ? nullptr : conf_for_prefix(prefix.b);
    size_t need = hc0 && hc0->nrbytes > 0 ? (size_t)hc0->nrbytes : 1;
    std::vector<std::string> cands;
    { std::map<uintptr_t, unsigned char> img;
      for (auto &d : draws) for (size_t q = 0; q < d.bytes.size(); q++) img[(uintptr_t)d.buf + q] = (unsigned char)d.bytes[q];
      std::string run; uintptr_t prev = 0;
      for (auto &kv : img) { if (!run.empty() && kv.first != prev + 1) { cands.push_back(run); run.clear(); } run += (char)kv.second; prev = kv.first; }
      if (!run.empty()) cands.push_back(run);
      std::stable_sort(cands.begin(), cands.end(), [](const std::string &x, const std::string &y) { return x.size() > y.size(); }); }
    for (auto &d : draws) if (d.complete) cands.push_back(d.bytes);
    if (draws.size() > 1) { std::string cat; for (auto &d : draws) cat += d.bytes; cands.push_back(cat); stat("incidental_multiple_entropy_deliveries_in_one_call"); }
    { std::vector<std::string> u; for (auto &c : cands) if (c.size() >= need && std::find(u.begin(), u.end(), c) == u.end()) u.push_back(c); cands.swap(u); }
    have_exp = true;
    if (cands.empty()) { exp_fail = true; stat("probe_call_with_only_partial_deliveries"); }
    else {
      bool found = false, first = true;
      for (auto &c : cands) {
        RefOut e2 = RefClient::get().gensalt(prefix, count, Bytes(c), (int)c.size(), ref_osz);
        if (e2.bad) crash_exit("machinery", ("refsrv: " + e2.raw).c_str());
        if (first) { exp = e2; first = false; }
        if (failed ? !e2.ok : (e2.ok && e2.str == res)) { exp = e2; found = true; break; }
      }
      // (a search costs hundreds of reference queries: never after the run has its violation - a failing search is one -
      // and what matched once in this run is tried first the next time)
      static thread_local uint64_t search_run = 0; static thread_local std::vector<std::pair<int, size_t>> hits;
      if (search_run != g_run_seed) { search_run = g_run_seed; hits.clear(); }
      if (!found && !failed && !run_violated()) {
        stat("incidental_salt_from_part_of_the_draw_searches");
        auto try_part = [&](const std::string &all, int side, size_t L) {
          if (L < need || L >= all.size()) return false;
          std::string part = side == 0 ? all.substr(0, L) : all.substr(all.size() - L);
          RefOut e2 = RefClient::get().gensalt(prefix, count, Bytes(part), (int)L, ref_osz);
          if (e2.bad) crash_exit("machinery", "refsrv");
          if (e2.ok && e2.str == res) { exp = e2; found = true; stat("incidental_salt_from_part_of_the_draw"); return true; }
          return false;
        };
        for (auto &all : cands) { for (auto &h : hits) if (try_part(all, h.first, h.second)) break; if (found) break; }
        for (auto &all : cands) {
          // lengths worth asking about: what hashes.conf asks for and a little more, the usual buffer sizes, and almost all
          std::vector<size_t> Ls; for (size_t q = 0; q <= 8; q++) { Ls.push_back(need + q); if (all.size() > q + 1) Ls.push_back(all.size() - 1 - q); }
          for (size_t q : {16u, 20u, 24u, 32u, 48u, 64u, 128u}) Ls.push_back(q);
          for (int side = 0; side < 2 && !found; side++)
            for (size_t L : Ls) { if (found) break; if (try_part(all, side, L)) hits.emplace_back(side, L); }
          if (found) break;
        }
      }
    }
  }
  if (have_exp && !exp_fail) { if (exp.bad) crash_exit("machinery", ("refsrv: " + exp.raw).c_str()); exp_fail = !exp.ok; }

  if ((r.o_ref || r.o_c12 || r.o_c15 || r.o_c14) && have_exp) {
    if (VARIANT[0] == 'r' && r.ntasks > 1 && failed && !exp_fail && rb.null) {
      // Several threads in a fallback configuration: the unchanged library re-reads the shared dev_urandom_doesnt_work
      // flag after close(); if another thread's read failed meanwhile, this thread discards its own complete draw and
      // fails.  That is fail-closed - no salt from bad bytes - and so no violation of the clause; counted only.
      stat("incidental_complete_draw_discarded_under_concurrency");
#ifdef SIM_RNG
    } else if (failed && !exp_fail && rb.null && g_rngdev.fired_in_op[t] > 0) {
      // A primitive failed during this very call (for instance close() after a complete read) and the call then
      // failed although another primitive delivered completely: stricter than necessary, but fail-closed - the
      // clause says where a salt's bytes must come from, not that a draw must be used.  Counted only.
      stat("incidental_complete_draw_discarded_after_fault_in_same_call");
#endif
    } else if (exp_fail != failed) {
      if (rb.null && draws.empty() && !failed)
        violation(nullptr, "salt-without-os-entropy", t, i, vfmt("%s(rbytes=NULL) returned \"%s\" without drawing from the OS entropy source", kind.c_str(), res.c_str()));
      else
        violation(nullptr, "outcome", t, i, vfmt("%s: %s here, but %s when evaluated alone%s", kind.c_str(), failed ? "failed" : ("returned \"" + res + "\"").c_str(),
                                                  exp_fail ? "fails" : ("returns \"" + exp.str + "\"").c_str(), rb.null ? " on the bytes the entropy device delivered" : ""));
    } else if (!failed && res != exp.str)
      violation(nullptr, rb.null ? "salt-not-from-delivered-entropy" : "result", t, i,
                vfmt("%s returned \"%s\" but the history-free result for %s is \"%s\"", kind.c_str(), res.c_str(), rb.null ? "the delivered random bytes" : "these arguments", exp.str.c_str()));
  }
  if (rb.null && r.o_c12) {
    stat("probe_auto_entropy_calls");
    if (!failed) {
      const HashConf *hc = prefix.null ? nullptr : conf_for_prefix(prefix.b);
      // repeated calls return different salts
      auto &v = tc.null_rbytes_results[(prefix.null ? std::string("<NULL>") : prefix.b) + "#" + std::to_string(count)];
      v.push_back(res);
      const HashConf *hc2 = hc;
      if (v.size() >= 4 && (!hc2 || hc2->nrbytes >= 3)) {
        bool same = true; for (auto &s : v) if (s != v[0]) same = false;
        stat("probe_distinctness_checks");
        if (same) violation(nullptr, "repeated-salt", t, i, vfmt("%zu successive %s(rbytes=NULL) calls all returned \"%s\"", v.size(), kind.c_str(), res.c_str()));
      }
    } else {
      // failed: must hold the failure token, never a setting
      if (kind == "gensalt_rn" && osz >= 3 && outbuf[0] != '*')
        violation(nullptr, "failure-token", t, i, "failing crypt_gensalt_rn left something other than a failure token in the buffer");
    }
  }
#ifdef SIM_RNG
  if (rb.null) {
    // C12-6: every descriptor opened for /dev/urandom is closed again before the call returns
    { size_t mine = 0; for (auto it = g_rngdev.open_fds.begin(); it != g_rngdev.open_fds.end();) if (it->second == t) { mine++; it = g_rngdev.open_fds.erase(it); } else ++it;
      if (mine) violation(nullptr, "fd-leak", t, i, vfmt("%s returned with %zu descriptor(s) on /dev/urandom still open", kind.c_str(), mine)); }
    // C12-5: bounded liveness.  No fault in this call, and the configuration still has a source that has never
    // failed in this process (so it cannot legitimately have been written off): the call must succeed.
    if (!scripted && failed && have_exp && draws.empty()) {
      static const char *src[] = {"getentropy", "getrandom", "sys_getrandom", "urandom"};
      int bits[] = {1, 2, 4, 8};
      int conf = (g_rngdev.variant & 7) | 8;
      for (int k = 0; k < 4; k++)
        if ((conf & bits[k]) && !g_rngdev.failed_sources.count(src[k])) {
          RefOut would = RefClient::get().gensalt(prefix, count, Bytes(std::string(64, 'x')), 64, ref_osz);
          if (would.ok) violation(nullptr, "no-progress-after-faults", t, i, vfmt("%s failed although no fault was injected in this call and source '%s' has never failed in this process", kind.c_str(), src[k]));
          break;
        }
      stat("probe_liveness_checks");
    }
    if (scripted) stat("ops_with_injected_fault");
    if (scripted && failed) stat("probe_all_sources_failed_call_failed");
    if (scripted && !failed) stat("probe_fallback_source_succeeded");
  }
#endif
  // C09-5 / C12-7: the drawn bytes are wiped from the library's buffer after a successful draw
  // (a failing call is judged only if get_random_bytes itself reported success: when the helper reports failure after
  // a complete delivery - another thread's failure, a failing close() - crypt_gensalt_rn leaves at once, and what it
  // leaves behind was never "the random bytes it drew" for any salt; the unchanged tree does exactly that)
  bool grb_reported_success = true;
#ifdef SIM_RNG
  grb_reported_success = g_rngdev.grb_ok[t] > 0 && g_rngdev.grb_ok[t] == g_rngdev.grb_calls[t];
#endif
  if (rb.null && (r.o_c09 || r.o_c12) && !draws.empty() && draws.back().bytes.size() >= 4 && (!failed || grb_reported_success)) {
    if (failed) stat("probe_entropy_wipe_checks_failing_call");
    const EntropyDraw &d = draws.back();
    stat("probe_entropy_wipe_checks");
    if (drawn_still_there)
      violation(nullptr, "entropy-not-erased", t, i, vfmt("the %zu random bytes drawn for %s are still in the library's buffer after it returned", d.bytes.size(), kind.c_str()));
  }
#ifdef SIM_O0
  // ... and from everywhere else: a tree may stage the draw in one buffer and hand a copy to the method, so the -O0 build
  // also searches the stack region the call used for the drawn bytes themselves (8-byte windows).
  if (rb.null && (r.o_c09 || r.o_c12) && !draws.empty() && draws.back().bytes.size() >= 8) {
    PatSet dp; dp.build(draws.back().bytes);
    size_t off; const char *enc = dp.empty() ? nullptr : dp.scan(dr.lo, (size_t)(dr.hi - dr.lo), &off);
    stat("probe_drawn_bytes_stack_scans");
    std::string pfx = prefix.null ? "NULL" : prefix.b;
    if (failed && grb_reported_success) stat("drawn_bytes_stack_scans_failing_call_" + pfx);
    // For the bcrypt and yescrypt-family generators a failing call leaves no copy of the draw on the unchanged tree
    // (2165 / 127 / 126 such calls scanned); gensalt_sha_rn's callers do, so $1$/$5$/$6$ stay counters.
    static const char *clean[] = {"$2a$", "$2b$", "$2x$", "$2y$", "$y$", "$gy$", "$7$"};
    bool judged = false; for (const char *cp : clean) if (pfx == cp) judged = true;
    if (enc && !strcmp(enc, "raw") && failed && grb_reported_success && judged)
      violation(nullptr, "entropy-not-erased", t, i, vfmt("%s(%s) failed after a complete draw of %zu random bytes, and a copy of them is still in the stack region the call used (%zu bytes below the caller's frame)",
                                                         kind.c_str(), pfx.c_str(), draws.back().bytes.size(), (size_t)(dr.hi - dr.lo) - off));
    else if (enc && !strcmp(enc, "raw")) {
      if (failed && grb_reported_success) stat("incidental_drawn_bytes_on_stack_after_failing_call_" + pfx);
      else if (!failed) stat("incidental_drawn_bytes_on_stack_after_successful_call_" + pfx);
    }
  }
#endif
  // allocation protocol of crypt_gensalt_ra
  if (kind == "gensalt_ra" && !failed) {
    const Block *b = MemLayer::get().find(ret);
    if (!b || b->is_map || b->from_harness)
      violation(nullptr, "gensalt-ra-protocol", t, i, "crypt_gensalt_ra returned a pointer that is not the start of a block it allocated");
    else {
      if (strnlen(ret, b->size) >= b->size) violation(nullptr, "gensalt-ra-protocol", t, i, "crypt_gensalt_ra result is not NUL-terminated inside its block");
      tc.owned_strings.push_back(ret);
    }
  }
  leak_check(r, t, i, "after the call returned");
  if (outbuf) { thr::region_del(outbuf); free(outbuf); }
}

static void exec_checksalt(Run &r, int t, int i, const J &op) {
  Bytes st = Bytes::from_json(op.at("st"));
  int got = 0;
  thr::api_boundary(t, i, true);
  deepcall(t, [&]() { got = _crypt_crypt_checksalt(st.cstr()); }, false);
  thr::api_boundary(t, i, false);
  record_result(r, t, i, vfmt("checksalt -> %d", got));
  stat("op_checksalt");
  sig_add(r, "checksalt");
  if (r.o_ref) {
    int e = RefClient::get().checksalt(st);
    if (e == -999) crash_exit("machinery", "refsrv checksalt");
    if (e != got) violation(nullptr, "result", t, i, vfmt("crypt_checksalt returned %d here but %d when evaluated alone", got, e));
  }
}
static void exec_preferred(Run &r, int t, int i, const J &) {
  const char *got = nullptr;
  thr::api_boundary(t, i, true);
  deepcall(t, [&]() { got = _crypt_crypt_preferred_method(); }, false);
  thr::api_boundary(t, i, false);
  record_result(r, t, i, vfmt("preferred -> %s", got ? got : "NULL"));
  stat("op_preferred");
  sig_add(r, "preferred");
  if (r.o_ref) {
    RefOut e = RefClient::get().preferred();
    if (e.bad) crash_exit("machinery", "refsrv preferred");
    if ((got != nullptr) != e.ok || (got && e.str != got)) violation(nullptr, "result", t, i, "crypt_preferred_method differs from its history-free value");
  }
}

// obsolete DES API --------------------------------------------------------------
static void pack64(const std::string &v, unsigned char out[8]) {
  for (int a = 0; a < 8; a++) { unsigned c = 0; for (int b = 0; b < 8; b++) c = (c << 1) | ((unsigned char)v[(size_t)(a * 8 + b)] & 1); out[a] = (unsigned char)c; }
}
static void exec_des(Run &r, int t, int i, const J &op) {
  TaskCtx &tc = r.tc[t];
  std::string kind = op.str("k");
  sig_add(r, kind + ":" + std::to_string(op.i("obj", -1)));
  stat("op_" + kind);
  if (kind == "setkey" || kind == "setkey_r") {
    std::string key; hexdec(op.str("key"), key); key.resize(64);
    // the session-key idiom: the new key is what the previous encrypt produced (1) or was given (2), noise bits redrawn
    if (op.i("keychain") == 1 && tc.last_des_out.size() == 64) { key = tc.last_des_out; for (auto &ch : key) ch = (char)((ch & 1) | (op.i("keynoise", 0) & 0xfe)); stat("probe_des_key_is_previous_output"); }
    if (op.i("keychain") == 2 && tc.last_des_in.size() == 64) { key = tc.last_des_in; for (auto &ch : key) ch = (char)((ch & 1) | (op.i("keynoise", 0) & 0xfe)); stat("probe_des_key_is_previous_input"); }
    DataObj *obj = kind == "setkey_r" ? &tc.objs.at((size_t)op.i("obj")) : nullptr;
    std::vector<char> kb(key.begin(), key.end());
    thr::region_add(kb.data(), 64, t, "des-key-vector");
    thr::api_boundary(t, i, true);
    deepcall(t, [&]() { errno = (int)op.i("errno0", 0); if (obj) _crypt_setkey_r(kb.data(), obj->cd); else _crypt_setkey(kb.data()); }, false);
    thr::api_boundary(t, i, false);
    thr::region_del(kb.data());
    if (obj) { pack64(key, obj->key); obj->key_state = 1; obj->state = "scribbled"; } else { pack64(key, r.skey); r.skey_state = 1; }
    record_result(r, t, i, kind);
    if (memcmp(kb.data(), key.data(), 64)) violation(nullptr, "des-api", t, i, kind + " modified its key argument");
    return;
  }
  if (kind == "encrypt" || kind == "encrypt_r") {
    std::string blk; hexdec(op.str("blk"), blk); blk.resize(64);
    if (op.i("chain") && tc.last_des_out.size() == 64) { blk = tc.last_des_out; for (auto &ch : blk) ch = (char)((ch & 1) | 0x54); }   // the previous output, with noise bits
    int flag = (int)op.i("flag");
    DataObj *obj = kind == "encrypt_r" ? &tc.objs.at((size_t)op.i("obj")) : nullptr;
    std::vector<char> bb(blk.begin(), blk.end());
    if (obj && (obj->key_state == 3 || (obj->key_state == 0 && !scratch_zero(obj->cd)))) {
      // encrypt_r on an object whose scratch area holds application garbage is a caller error, not a history to explore
      record_result(r, t, i, kind + " skipped: no key schedule in the object"); stat("des_encrypt_skipped_no_key"); return;
    }
    thr::region_add(bb.data(), 64, t, "des-block-vector");
    thr::api_boundary(t, i, true);
    deepcall(t, [&]() { errno = (int)op.i("errno0", 0); if (obj) _crypt_encrypt_r(bb.data(), flag, obj->cd); else _crypt_encrypt(bb.data(), flag); }, false);   // errno is arbitrary at entry here too
    thr::api_boundary(t, i, false);
    thr::region_del(bb.data());
    std::string out(bb.begin(), bb.end());
    tc.last_des_out = out; tc.last_des_in = blk;
    record_result(r, t, i, kind + " -> " + hexenc(out));
    int ks = obj ? obj->key_state : r.skey_state;
    const unsigned char *key = obj ? obj->key : r.skey;
    if (ks == 1 && r.o_c17) {
      unsigned char in8[8], exp8[8]; pack64(blk, in8);
      des_model_crypt(key, in8, exp8, flag != 0);
      std::string expv(64, '\0');
      for (int a = 0; a < 8; a++) for (int b = 0; b < 8; b++) expv[(size_t)(a * 8 + b)] = (char)((exp8[a] >> (7 - b)) & 1);
      stat("probe_des_blocks_checked");
      if (out != expv) {
        bool bytes01 = true; for (unsigned char ch : out) if (ch > 1) bytes01 = false;
        violation(nullptr, bytes01 ? "des-mismatch" : "des-not-01", t, i,
                  vfmt("%s(flag=%d) with key %s on block %s gave %s, FIPS 46-3 DES gives %s", kind.c_str(), flag, hexenc(key, 8).c_str(), hexenc(in8, 8).c_str(),
                       hexenc(out).c_str(), hexenc(expv).c_str()));
      }
    } else stat("des_blocks_unchecked_key_not_known");
    return;
  }
  if (kind == "des_block") {
    std::string k8, b8; hexdec(op.str("key"), k8); hexdec(op.str("blk"), b8); k8.resize(8); b8.resize(8);
    bool dec = op.i("flag") != 0;
    alignas(64) unsigned char ctx[512]; garbage_fill(ctx, sizeof ctx, (uint64_t)op.i("gseed", 3));
    unsigned char out[8];
    thr::region_add(ctx, sizeof ctx, t, "des-ctx");
    thr::api_boundary(t, i, true);
    deepcall(t, [&]() {
      _crypt_des_set_key(ctx, (const unsigned char *)k8.data());
      _crypt_des_set_salt(ctx, 0);
      _crypt_des_crypt_block(ctx, out, (const unsigned char *)b8.data(), 1, dec);
    }, false);
    thr::api_boundary(t, i, false);
    thr::region_del(ctx);
    unsigned char exp8[8]; des_model_crypt((const unsigned char *)k8.data(), (const unsigned char *)b8.data(), exp8, dec);
    record_result(r, t, i, "des_block -> " + hexenc(out, 8));
    stat("probe_des_blocks_checked");
    if (r.o_c17 && memcmp(out, exp8, 8))
      violation(nullptr, "des-mismatch", t, i, vfmt("des_crypt_block(salt 0, count 1, %s) key %s block %s gave %s, DES gives %s", dec ? "decrypt" : "encrypt",
                                                   hexenc(k8).c_str(), hexenc(b8).c_str(), hexenc(out, 8).c_str(), hexenc(exp8, 8).c_str()));
    return;
  }
}

// harness-side ops -----------------------------------------------------------
static void exec_slot_set(Run &r, int t, int i, const J &op) {
  Slot &s = r.tc[t].slots.at((size_t)op.i("slot"));
  if (s.data) MemLayer::get().h_free(s.data);
  long blk = (long)op.i("blk", -1);
  if (blk < 0) { s.data = nullptr; s.size = (int)op.i("rec", 0); }
  else {
    s.data = MemLayer::get().h_malloc((size_t)blk, t); s.size = (int)op.i("rec", blk);
    std::string fill = op.str("fill", "dirty");   // what the caller's block holds (dirty heap by default)
    if (fill == "zero") memset(s.data, 0, (size_t)blk);
    else if (fill == "ones") memset(s.data, 0xff, (size_t)blk);
    else if (fill == "star" && blk > 0) { memset(s.data, 0, (size_t)blk); memcpy(s.data, "*0", blk >= 3 ? 3 : 1); }
    else if (fill == "hashlike" && blk > 0) { memset(s.data, 0, (size_t)blk); const char *h = "$1$abcdefgh$0123456789abcdefghijkl"; memcpy(s.data, h, (size_t)blk < strlen(h) ? (size_t)blk : strlen(h)); }
  }
  s.state = "fresh"; s.returned.clear();
  sig_add(r, vfmt("slot_set:%d:%lld", blk < 0 ? -1 : (blk >= (long)CD ? 2 : 1), (long long)(op.i("rec", blk) < 0 ? -1 : op.i("rec", blk) == 0 ? 0 : 1)));
  ev(vfmt("slot_set t%d op%d slot=%lld blk=%ld rec=%d", t, i, (long long)op.i("slot"), blk, s.size));
  stat("op_slot_set");
}
static void exec_free_results(Run &r, int t, int i, const J &) {
  for (void *p : r.tc[t].owned_strings) MemLayer::get().h_free(p);
  r.tc[t].owned_strings.clear();
  ev(vfmt("free_results t%d op%d", t, i));
}
static void exec_scribble(Run &r, int t, int i, const J &op) {
  DataObj &o = r.tc[t].objs.at((size_t)op.i("obj"));
  std::string what = op.str("what", "garbage");
  if (what == "appfields") {
    // what crypt.h allows an application to do with the object at any time: use output/setting/input as it likes, set
    // 'reserved' and 'initialized' to zero.  'internal' is not touched, so a key set with setkey_r must survive.
    garbage_fill(o.cd->output, sizeof o.cd->output, (uint64_t)op.i("gseed") + 12); garbage_fill(o.cd->setting, sizeof o.cd->setting, (uint64_t)op.i("gseed") + 13);
    garbage_fill(o.cd->input, sizeof o.cd->input, (uint64_t)op.i("gseed") + 14);
    memset(o.cd->reserved, 0, sizeof o.cd->reserved); o.cd->initialized = 0;
    o.state = "scribbled"; o.input_tainted = o.setting_tainted = o.output_tainted = false;
    sig_add(r, "scribble:appfields"); ev(vfmt("scribble t%d op%d obj=%lld appfields", t, i, (long long)op.i("obj"))); stat("op_scribble_appfields");
    return;
  }
  if (what == "zero") memset(o.cd, 0, CD); else garbage_fill(o.cd, CD, (uint64_t)op.i("gseed") + 11);
  o.state = "scribbled"; o.key_state = what == "zero" ? (o.key_state ? 2 : 0) : 3; o.input_tainted = o.setting_tainted = o.output_tainted = false;
  sig_add(r, "scribble:" + what);
  ev(vfmt("scribble t%d op%d obj=%lld %s", t, i, (long long)op.i("obj"), what.c_str()));
  stat("op_scribble");
}

// digest / MAC primitives (C09-6) -------------------------------------------
static void exec_prim(Run &r, int t, int i, const J &op) {
  int alg = (int)op.i("alg");
  Bytes msg = Bytes::from_json(op.at("msg")), key = Bytes::from_json(op.at("key"));
  std::string secret = op.str("secret", "msg") == "key" ? key.b : msg.b;
  alignas(64) static thread_local unsigned char ctxbuf[4096];
  garbage_fill(ctxbuf, sizeof ctxbuf, 77);
  unsigned char out[64]; size_t used = 0; int dl = 0;
  PatSet pat; pat.build(secret);
  sig_add(r, vfmt("prim:%d:%zu", alg, secret.size() / 32));
  thr::region_add(ctxbuf, sizeof ctxbuf, t, "prim-ctx");
  DeepRange dr = deepcall(t, [&]() {
    dl = prim_run(alg, (const uint8_t *)msg.b.data(), msg.b.size(), (const uint8_t *)key.b.data(), key.b.size(), ctxbuf, &used, out);
  }, VARIANT[0] == 'O');
  thr::region_del(ctxbuf);
  record_result(r, t, i, vfmt("prim %s -> %s", prim_name(alg), hexenc(out, (size_t)dl).c_str()));
  stat("op_prim");
  if (!dl) return;
  if (r.o_c09) {
    if (used) {
      stat("probe_ctx_wipe_checks");
      if (!all_zero(ctxbuf, used))
        violation(nullptr, "context-not-erased", t, i, vfmt("%s: the %zu-byte context is not all zero after finalisation", prim_name(alg), used));
    }
#ifdef SIM_O0
    // The statement promises context erasure for the primitives; what a *direct* primitive call leaves on
    // its stack is not part of it (the stack clause is about hashing calls).  Counted, never a verdict:
    // on the unchanged tree SHA512_Transform's W[80], gost_hash256 and gost_hmac256 do leave such copies.
    // The one-shot primitives (hmac_sha1_process_data, HMAC_SHA256_Buf, PBKDF2_SHA256, SHA256_Buf) are different:
    // their contexts are locals of the primitive itself, finalised before it returns, so the only place where "erased
    // when finalised" can be observed at all is that stack - and a context that was not erased still holds the tail of
    // the message (or the padded key) in its block buffer.  The unchanged tree leaves nothing there.
    size_t off; const char *enc = pat.scan(dr.lo, (size_t)(dr.hi - dr.lo), &off);
    bool owns_ctx = alg == 6 || alg == 7 || alg == 8 || alg == 11;
    if (owns_ctx) stat("probe_one_shot_primitive_stack_scans");
    if (enc && owns_ctx)
      violation(nullptr, "context-not-erased", t, i, vfmt("%s: its internal context (or another copy of the %s) is still on the stack after it returned (%s, %zu bytes below the caller's frame)",
                                                          prim_name(alg), op.str("secret", "msg").c_str(), enc, (size_t)(dr.hi - dr.lo) - off));
    else if (enc) stat(std::string("incidental_prim_stack_residue_") + prim_name(alg));
#endif
  }
  (void)dr;
}

static void exec_op(Run &r, int t, int i, const J &op) {
  set_cur_op(t, i);
  if (op.has("clock")) { g_sim_clock += op.i("clock"); stat("probe_clock_moved_between_calls"); ev(vfmt("clock %+lld", (long long)op.i("clock"))); }
  g_call_on_new_thread = op.i("newthread") != 0 && r.ntasks == 1;
  if (g_call_on_new_thread) stat("probe_call_on_fresh_thread");
  std::string k = op.str("k");
  if (k == "crypt" || k == "crypt_r" || k == "crypt_rn" || k == "crypt_ra") exec_hash(r, t, i, op);
  else if (k == "gensalt" || k == "gensalt_rn" || k == "gensalt_ra") exec_gensalt(r, t, i, op);
  else if (k == "checksalt") exec_checksalt(r, t, i, op);
  else if (k == "preferred") exec_preferred(r, t, i, op);
  else if (k == "setkey" || k == "encrypt" || k == "setkey_r" || k == "encrypt_r" || k == "des_block") exec_des(r, t, i, op);
  else if (k == "slot_set") exec_slot_set(r, t, i, op);
  else if (k == "free_results") exec_free_results(r, t, i, op);
  else if (k == "scribble") exec_scribble(r, t, i, op);
  else if (k == "encrypt_many") {   // n chained blocks under the key last set: every one goes through the same checks as a single encrypt
    J e = J::obj(); e["k"] = op.i("r") ? "encrypt_r" : "encrypt"; if (op.has("obj")) e["obj"] = op.at("obj"); e["blk"] = op.at("blk");
    long n = (long)op.i("n");
    for (long b = 0; b < n && !run_violated(); b++) { e["flag"] = (long long)(b % 7 == 3); if (b == 1) e["chain"] = 1; exec_des(r, t, i, e); }
    stat("probe_des_bulk_histories");
  }
  else if (k == "prim") exec_prim(r, t, i, op);
  else crash_exit("machinery", ("unknown op kind " + k).c_str());
  g_call_on_new_thread = false;
}

static void task_body(int t, void *arg) {
  Run &r = *(Run *)arg;
  thr::task_start(t);
  const J &ops = r.plan.at("tasks").a[(size_t)t].at("ops");
  for (size_t i = 0; i < ops.a.size() && !run_violated(); i++) exec_op(r, t, (int)i, ops.a[i]);
  thr::task_finish(t);
}

// ================================================================= one run of one plan
struct RunOut { J result; std::vector<std::string> transcript; };

static RunOut run_plan(const J &plan, uint64_t fill_override, bool use_override) {
  Run r; g_run = &r;
  libstate_restore();
  deny_reset();
  r.plan = plan;
  g_prop = plan.str("property");
  g_viol = Violation(); g_viol_extra = 0; g_trace_hash = 0xcbf29ce484222325ULL; g_events = 0; g_event_text.clear(); g_stats.clear();
  g_run_seed = (uint64_t)plan.i("seed");
  g_phase = "run";
  alarm(VARIANT[0] == 'r' ? 60 : 1500);   // (fallback-entropy runs are cheap: a minute there means a loop that never ends)  a run is milliseconds to a few seconds (rarely a minute: GiB regions, ten million rounds); anything near this is a generator mistake, never a verdict
  const std::string &p = g_prop;
  r.o_ref = (p == "C07" || p == "C08" || p == "C17" || p == "C14" || p == "C09" || p == "C12");
  r.o_c05 = p == "C05"; r.o_c09 = p == "C09"; r.o_c12 = p == "C12"; r.o_c14 = p == "C14"; r.o_c15 = p == "C15"; r.o_c17 = (p == "C17" || p == "C08");
  r.ntasks = (int)plan.at("tasks").a.size();
  if (r.ntasks < 1 || r.ntasks > MAX_TASKS) crash_exit("machinery", "bad task count");
  ensure_stacks(r.ntasks);

  MemEnv env; env.fill_seed = use_override ? fill_override : (uint64_t)plan.at("env").i("fill_seed", 1);
  env.realloc_move = plan.at("env").i("realloc_move", 1) != 0;
  env.map_limit = (size_t)plan.at("env").i("map_limit_mib", 0) << 20;
  env.soft_fault_pct = (int)plan.at("env").i("soft_fault_pct", 0);
  MemLayer &ml = MemLayer::get();
  ml.begin_run(env);
  EntropyDev::get().begin_run((uint64_t)plan.at("env").i("entropy_seed", (long long)g_run_seed));
#ifdef SIM_RNG
  g_rngdev = RngDev(); g_rngdev.variant = (int)plan.i("rng_variant", 0); g_rngdev.fd_base = (int)plan.i("fd_base", 1000);
#endif
  g_release_hook = on_release;
  ev(vfmt("run prop=%s seed=%llu tasks=%d", p.c_str(), (unsigned long long)g_run_seed, r.ntasks));
  thr::begin_run(plan.at("schedule"), g_run_seed, r.ntasks);

  for (auto &sj : plan.at("shared").a) r.shared.push_back(Bytes::from_json(sj).b);
  for (auto &sh : r.shared) { sh.reserve(sh.size() + 1); thr::region_add(sh.c_str(), sh.size() + 1, -1, "shared read-only input"); }
  // caller-side objects
  for (int t = 0; t < r.ntasks; t++) {
    const J &tj = plan.at("tasks").a[(size_t)t];
    for (auto &oj : tj.at("objs").a) {
      DataObj o; o.align = (int)oj.i("align") & 15;
      if (oj.i("page")) {   // the object itself starts (and, being 8 pages long, ends) exactly on a page boundary
        const size_t PG = 4096; o.align = 0;
        o.alloc = (char *)aligned_alloc(PG, ((OBJ_BLOCK + 2 * PG) / PG + 1) * PG);
        o.base = o.alloc + (PG - OBJ_PAD % PG) % PG;
        stat("probe_object_on_page_boundary");
      } else o.alloc = o.base = (char *)aligned_alloc(64, OBJ_BLOCK);
      o.cd = (struct crypt_data *)(o.base + OBJ_PAD + o.align);
      std::string init = oj.str("init", "zero");
      if (init == "zero") memset(o.base, 0, OBJ_BLOCK); else garbage_fill(o.base, OBJ_BLOCK, (use_override ? fill_override : 0) + (uint64_t)oj.i("gseed", 1));
      thr::region_add(o.base, OBJ_BLOCK, t, "data-object");
      r.tc[t].objs.push_back(o);
    }
    r.tc[t].slots.resize((size_t)tj.i("slots", 0));
    if (!r.tc[t].slots.empty()) thr::region_add(r.tc[t].slots.data(), r.tc[t].slots.size() * sizeof(Slot), t, "ra-slot");
  }

  // process locale: part of the environment a caller may have set (login, su, passwd all call setlocale (LC_ALL, ""))
  std::string loc = plan.at("env").str("locale", "C");
  if (loc != "C") {
    static bool locpath_set;
    if (!locpath_set) {   // the locale built next to this executable (Makefile: $(B)/locale)
      char exe[4096]; ssize_t n = readlink("/proc/self/exe", exe, sizeof exe - 1);
      if (n > 0) { exe[n] = 0; g_locpath = std::string(exe); g_locpath = g_locpath.substr(0, g_locpath.rfind('/')) + "/locale"; }
      locpath_set = true;
    }
    if (loc.compare(0, 5, "xx_XX") == 0 && !g_locpath.empty()) setenv("LOCPATH", g_locpath.c_str(), 1); else unsetenv("LOCPATH");
    // (the locale built here has LC_CTYPE only - the category character classification, multibyte conversion and
    // case mapping look at - so it is selected for that category; an installed locale is selected as a whole)
    if (!setlocale(loc.compare(0, 5, "xx_XX") == 0 ? LC_CTYPE : LC_ALL, loc.c_str())) { stat("locale_unavailable"); loc = "C"; } else stat("probe_runs_in_non_C_locale_" + loc);
  }
#ifndef SIM_THR
  thr::g_co_hold_after_mmap = plan.at("schedule").i("hold_after_mmap") != 0;
#endif
  g_sim_clock = 1700000000LL + plan.at("env").i("clock0", 0) + (use_override ? 86400LL * 37 + 4242 : 0);   // the second pass of a purity run lives at another time
  g_stack_garbage_seed = (p == "C07") ? (env.fill_seed * 0x9e3779b97f4a7c15ULL | 1) : 0;
  thr::run_tasks(r.ntasks, task_body, &r, TASK_STACK_SIZE);
  g_stack_garbage_seed = 0;
  if (loc != "C") setlocale(LC_ALL, "C");

  g_phase = "teardown";
  // end of history: the caller frees what it owns, exactly once; then nothing may be live
  for (int t = 0; t < r.ntasks; t++) {
    for (auto &s : r.tc[t].slots) if (s.data) { if (!ml.find(s.data)) violation(nullptr, "ra-protocol", t, -1, "slot block is not live at the end of the history"); else ml.h_free(s.data); s.data = nullptr; }
    for (void *q : r.tc[t].owned_strings) { if (!ml.find(q)) violation(nullptr, "gensalt-ra-protocol", t, -1, "gensalt_ra string not live at the end"); else ml.h_free(q); }
    r.tc[t].owned_strings.clear();
  }
  for (auto &kv : ml.live) {
    const Block &b = kv.second;
    if (!b.release_refused && !retained_by_library_static(kv.first, b.size)) { violation(nullptr, "leak", b.task, b.op, vfmt("%s of %zu bytes from t%d op%d never released", b.is_map ? "mapping" : "heap block", b.size, b.task, b.op)); break; }
  }
  { std::vector<std::pair<void *, Block>> rest; for (auto &kv : ml.live) rest.emplace_back((void *)kv.first, kv.second);
    for (auto &e : rest) ml.h_free(e.first); }
  for (auto &sh : r.shared) thr::region_del(sh.c_str());
  J thrinfo = thr::end_run();
  for (int t = 0; t < r.ntasks; t++) { for (auto &o : r.tc[t].objs) { thr::region_del(o.base); free(o.alloc); } if (!r.tc[t].slots.empty()) thr::region_del(r.tc[t].slots.data()); }
  g_release_hook = nullptr;

  // nontrivial-case rules (stated in evidence 'rule')
  {
    std::map<std::string, int> hashing_per_obj; bool any_fail_after_success = g_stats["probe_failure_after_success_same_object"] > 0;
    for (auto &tj : plan.at("tasks").a) for (auto &op : tj.at("ops").a) {
      std::string k = op.str("k");
      if (k == "crypt" || k == "crypt_r" || k == "crypt_rn" || k == "crypt_ra") hashing_per_obj[objkey(op)]++;
    }
    bool shared = false; for (auto &kv : hashing_per_obj) if (kv.second >= 2) shared = true;
    if (p == "C07") r.nontrivial = shared;
    else if (p == "C05") r.nontrivial = any_fail_after_success || g_stats["probe_failure_after_failure_same_object"] > 0;
    else if (p == "C09") r.nontrivial = g_stats["probe_residue_scans"] + g_stats["probe_ctx_wipe_checks"] + g_stats["probe_entropy_wipe_checks"] > 0;
    else if (p == "C12" && VARIANT[0] == 'r') r.nontrivial = g_stats["ops_with_injected_fault"] > 0;
    else if (p == "C12") r.nontrivial = g_stats["probe_auto_entropy_calls"] > 0;
    else if (p == "C14") r.nontrivial = g_stats["probe_ra_growth"] > 0 || g_stats["calls_failed"] > 0 || g_stats["gensalt_failed"] > 0;
    else if (p == "C15") r.nontrivial = g_stats["ops_with_injected_fault"] > 0;
    else if (p == "C17") r.nontrivial = g_stats["probe_des_blocks_checked"] > 0;
    else if (p == "C08") r.nontrivial = thrinfo.i("midcall_switches") > 0;
  }

  RunOut out;
  J res = J::obj();
  res["seed"] = (long long)g_run_seed;
  res["prop"] = p;
  res["variant"] = VARIANT;
  res["failure_tokens"] = (long long)SIM_FAILTOK;
  res["ok"] = !g_viol.set;
  if (g_viol.set) {
    J v = J::obj(); v["prop"] = g_viol.prop; v["cls"] = g_viol.cls; v["task"] = g_viol.task; v["op"] = g_viol.op; v["msg"] = g_viol.msg; v["more"] = (long long)g_viol_extra;
    res["viol"] = v;
  }
  res["hash"] = vfmt("%016llx", (unsigned long long)g_trace_hash);
  res["events"] = (long long)g_events;
  res["sig"] = vfmt("%016llx", (unsigned long long)r.hist_sig);
  res["fallible_last"] = (long long)ml.fallible_seen[0];
  res["nontrivial"] = r.nontrivial;
  J st = J::obj();
  for (auto &kv : g_stats) st[kv.first] = (long long)kv.second;
  for (auto &kv : ml.stats) st[kv.first] = (long long)kv.second;
  res["stats"] = st;
  if (thrinfo.t == J::OBJ && thrinfo.size() && !thrinfo.i("coarse")) res["thr"] = thrinfo;
  if (thrinfo.i("coarse") && r.ntasks > 1) res["coarse_switches"] = thrinfo.i("midcall_switches");
  out.result = res; out.transcript = r.results;
  g_run = nullptr; g_phase = "idle"; alarm(0);
  return out;
}

// C07: the whole history a second time with different dirty-heap/garbage
// patterns; the result sequence must be identical.
static J run_plan_checked(const J &plan) {
  RunOut a = run_plan(plan, 0, false);
  if (plan.str("property") == "C07" && a.result.i("ok")) {
    std::string h1 = a.result.str("hash");
    RunOut b = run_plan(plan, 0x5eed0000 + (uint64_t)plan.i("seed") * 7919, true);
    if (!b.result.i("ok")) { b.result["second_pass"] = true; return b.result; }
    if (a.transcript != b.transcript) {
      size_t k = 0; while (k < a.transcript.size() && k < b.transcript.size() && a.transcript[k] == b.transcript[k]) k++;
      J res = a.result; res["ok"] = false;
      J v = J::obj(); v["prop"] = "C07"; v["cls"] = "depends-on-stale-memory"; v["task"] = 0; v["op"] = (long long)k;
      v["msg"] = vfmt("same history, different dirty-memory pattern: '%s' vs '%s'", k < a.transcript.size() ? a.transcript[k].c_str() : "<end>", k < b.transcript.size() ? b.transcript[k].c_str() : "<end>");
      res["viol"] = v; return res;
    }
    a.result["double_run"] = true;
  }
  return a.result;
}

#ifdef SIM_RNG
// one run = one process lifetime (util-get-random-bytes.c memoises broken sources in statics)
static J run_isolated(const J &plan) {
  int pfd[2]; if (pipe(pfd)) { perror("pipe"); _exit(2); }
  pid_t pid = fork();
  if (pid == 0) {
    close(pfd[0]);
    J r = run_plan_checked(plan);
    std::string s = r.dump();
    size_t off = 0; while (off < s.size()) { ssize_t w = write(pfd[1], s.data() + off, s.size() - off); if (w <= 0) break; off += (size_t)w; }
    _exit(0);
  }
  close(pfd[1]);
  std::string buf; char tmp[65536]; ssize_t n;
  while ((n = read(pfd[0], tmp, sizeof tmp)) > 0) buf.append(tmp, (size_t)n);
  close(pfd[0]);
  int st = 0; while (waitpid(pid, &st, 0) < 0 && errno == EINTR) {}
  J r;
  if (!WIFEXITED(st) || WEXITSTATUS(st) != 0 || !J::parse(buf, r)) {
    r = J::obj(); r["seed"] = plan.at("seed"); r["prop"] = plan.str("property"); r["ok"] = false; r["hash"] = "crash";
    J v = J::obj(); v["prop"] = plan.str("property"); v["cls"] = "crash"; v["task"] = 0; v["op"] = -1;
    v["msg"] = vfmt("run process ended abnormally (wait status %d)", st); r["viol"] = v;
  }
  return r;
}
#define RUN_PLAN(p) run_isolated(p)
#else
#define RUN_PLAN(p) run_plan_checked(p)
#endif

// ================================================================= front end
static void usage() {
  fprintf(stderr, "usage: simcrypt --refsrv PATH (--prop P --tier T --seeds A:B[:STEP] | --replay FILE | --gen P SEED TIER) [--trace] [--twice]\n");
  _exit(2);
}
static void emit(const J &j) { std::string s = j.dump() + "\n"; (void)!write(1, s.data(), s.size()); }

int main(int argc, char **argv) {
  // address-space layout must not influence anything; make sure by fixing it
  if (!getenv("SIMCRYPT_NOASLR_DONE")) {
    int pers = personality(0xffffffff);
    if (pers != -1 && !(pers & ADDR_NO_RANDOMIZE) && personality((unsigned long)pers | ADDR_NO_RANDOMIZE) != -1) {
      setenv("SIMCRYPT_NOASLR_DONE", "1", 1);
      execv("/proc/self/exe", argv);
    }
  }
  std::string refsrv, prop, tier = "quick", seeds, replay, genprop, plansfile; uint64_t genseed = 0; bool twice = false; long skip = 0;
  for (int a = 1; a < argc; a++) {
    std::string s = argv[a];
    auto need = [&](int n) { if (a + n >= argc) usage(); };
    if (s == "--refsrv") { need(1); refsrv = argv[++a]; }
    else if (s == "--prop") { need(1); prop = argv[++a]; }
    else if (s == "--tier") { need(1); tier = argv[++a]; }
    else if (s == "--seeds") { need(1); seeds = argv[++a]; }
    else if (s == "--replay") { need(1); replay = argv[++a]; }
    else if (s == "--gen") { need(3); genprop = argv[++a]; genseed = strtoull(argv[++a], nullptr, 10); tier = argv[++a]; }
    else if (s == "--plans") { need(1); plansfile = argv[++a]; }
    else if (s == "--skip") { need(1); skip = atol(argv[++a]); }
    else if (s == "--trace") g_log_events = true;
    else if (s == "--twice") twice = true;
    else usage();
  }
  for (int sg : {SIGSEGV, SIGBUS, SIGILL, SIGFPE}) signal(sg, on_fatal_signal);
  signal(SIGALRM, on_watchdog);
  load_hashconf();
  libstate_snapshot();
  if (!refsrv.empty()) RefClient::get().start(refsrv);
  if (!genprop.empty()) { emit(generate_plan(genprop, genseed, tier)); return 0; }
  des_model_selftest();
  thr::init();

  if (!replay.empty()) {
    std::string text, err; J plan;
    if (!read_file(replay, text) || !J::parse(text, plan, &err)) { fprintf(stderr, "cannot read plan %s: %s\n", replay.c_str(), err.c_str()); return 2; }
    J r1 = RUN_PLAN(plan);
    if (twice) { J r2 = RUN_PLAN(plan); r1["hash2"] = r2.str("hash"); r1["deterministic"] = r1.str("hash") == r2.str("hash") && r1.i("ok") == r2.i("ok"); }
    if (g_log_events) { J e = J::arr(); for (auto &l : g_event_text) e.push(l); r1["events_text"] = e; }
    emit(r1);
    return r1.i("ok") ? 0 : 1;
  }
  if (!plansfile.empty()) {
    std::string text; if (!read_file(plansfile, text)) { fprintf(stderr, "cannot read %s\n", plansfile.c_str()); return 2; }
    size_t pos = 0; long idx = 0;
    while (pos < text.size()) {
      size_t e = text.find('\n', pos); if (e == std::string::npos) e = text.size();
      std::string line = text.substr(pos, e - pos); pos = e + 1;
      if (line.empty()) continue;
      if (idx++ < skip) continue;
      J plan; std::string err; if (!J::parse(line, plan, &err)) { fprintf(stderr, "bad plan line %ld: %s\n", idx, err.c_str()); return 2; }
      g_run_seed = (uint64_t)plan.i("seed"); g_prop = plan.str("property");
      J r = RUN_PLAN(plan); r["index"] = (long long)(idx - 1);
      if (plan.has("tag")) r["tag"] = plan.at("tag");
      emit(r);
    }
    J fin = J::obj(); fin["done"] = true; emit(fin);
    return 0;
  }
  if (prop.empty() || seeds.empty()) usage();
  unsigned long long a = 0, b = 0, step = 1;
  if (sscanf(seeds.c_str(), "%llu:%llu:%llu", &a, &b, &step) < 2) usage();
  if (!step) step = 1;
  for (unsigned long long s = a; s < b; s += step) {
    g_run_seed = s; g_prop = prop; g_phase = "generate";
    J plan = generate_plan(prop, s, tier);
    struct timeval t0, t1; gettimeofday(&t0, nullptr);
    J r = RUN_PLAN(plan);
    gettimeofday(&t1, nullptr);
    r["ms"] = (long long)((t1.tv_sec - t0.tv_sec) * 1000 + (t1.tv_usec - t0.tv_usec) / 1000);
    if (!r.i("ok") || (s - a) / step < 3) r["plan"] = plan;   // violating plans, and a few samples for the evidence
    if (g_log_events) { J e = J::arr(); for (auto &l : g_event_text) e.push(l); r["events_text"] = e; }
    emit(r);
  }
  J fin = J::obj(); fin["done"] = true; fin["ref_queries"] = (long long)RefClient::get().queries; fin["ref_forks"] = (long long)RefClient::get().forks;
  emit(fin);
  return 0;
}
