// C12 workload B: the OS entropy primitives behind util-get-random-bytes.c's
// fallback chain, simulated with a seeded fault schedule (DESIGN.md 3.7, 4.5).
#ifdef SIM_RNG
#include <cerrno>
#include <cstdarg>
#include <cstring>
#include <fcntl.h>
#include <sys/syscall.h>
#include <unistd.h>
#include "sim.hh"
#include "rngdev.hh"

RngDev g_rngdev;

extern "C" {
bool grb_variant_0(void *, size_t); bool grb_variant_1(void *, size_t); bool grb_variant_2(void *, size_t); bool grb_variant_3(void *, size_t);
bool grb_variant_4(void *, size_t); bool grb_variant_5(void *, size_t); bool grb_variant_6(void *, size_t); bool grb_variant_7(void *, size_t);
bool _crypt_get_random_bytes(void *buf, size_t n) {
  static bool (*const v[8])(void *, size_t) = {grb_variant_0, grb_variant_1, grb_variant_2, grb_variant_3, grb_variant_4, grb_variant_5, grb_variant_6, grb_variant_7};
  bool ok = v[g_rngdev.variant & 7](buf, n);
  g_rngdev.grb_calls[cur_task()]++; if (ok) g_rngdev.grb_ok[cur_task()]++;
  return ok;
}
}

// next scripted outcome for a source; "ok" when the script has nothing (faults stopped)
namespace thr { void co_yield_point(const char *where); }   // engine.cc: a place where a real thread may lose the CPU
using thr::co_yield_point;
static std::string next_outcome(const char *src) {
  auto &q = g_rngdev.script[cur_task()][src];
  if (q.empty()) return "ok";
  std::string o = q.front();
  if (!o.empty() && o.back() == '*') {   // pinned for the rest of the op ...
    // ... but not for ever: no signal storm or broken device outlasts a loop that keeps asking.  After 64 consecutive
    // calls an interrupted/would-block primitive goes through, and any other pinned outcome becomes a hard EIO - so a
    // tree that retries EINTR without a bound (common practice) terminates, and one that loops on hard errors too is
    // left to the watchdog.
    int &n = g_rngdev.pinned_served[cur_task()][src];
    std::string k = o.substr(0, o.size() - 1);
    if (++n > 64) return (k == "eintr" || k == "eagain") ? "ok" : "eio";
    return k;
  }
  q.erase(q.begin());
  return o;
}
static void partial_fill(void *buf, size_t n, const char *src) {
  // the bytes of a short delivery: fresh device bytes (on the unchanged tree a short delivery fails the source, so
  // they never reach a salt; a tree that loops until the request is complete may use them)
  uint64_t x = 0xbadf111 ^ (g_rngdev.partials++ * 0x9e3779b97f4a7c15ULL);
  unsigned char *c = (unsigned char *)buf;
  for (size_t i = 0; i < n; i++) c[i] = (unsigned char)(splitmix64(x) | 1);
  ev(vfmt("entropy-partial src=%s n=%zu", src, n));
  EntropyDev::get().note_partial(cur_task(), buf, n);   // real OS bytes too: a tree may keep them and ask for the rest
}
// returns bytes delivered (or -1 with errno)
static long serve(const char *src, void *buf, size_t n, bool all_or_nothing) {
  co_yield_point(src);
  std::string o = next_outcome(src);
  g_rngdev.calls[src]++;
  MemLayer::get().stats[std::string("src_") + src]++;
  if (all_or_nothing && n > 256) {   // getentropy(3): requests of more than 256 bytes fail with EIO
    g_rngdev.failed_sources.insert(src);
    g_rngdev.fired_in_op[cur_task()]++;
    MemLayer::get().stats["getentropy_over_256"]++;
    ev(vfmt("entropy-fault src=%s outcome=over-256", src));
    errno = EIO; return -1;
  }
  if (o == "ok") {
    EntropyDev::get().fill(cur_task(), buf, n);
    g_rngdev.full_draws++;
    return (long)n;
  }
  g_rngdev.failed_sources.insert(src);
  g_rngdev.fired_in_op[cur_task()]++;
  MemLayer::get().stats[std::string("inj_") + src + "_" + o.substr(0, o.find(':'))]++;
  ev(vfmt("entropy-fault src=%s outcome=%s", src, o.c_str()));
  if (o == "enosys") { errno = ENOSYS; return -1; }
  if (o == "eintr") { errno = EINTR; return -1; }
  if (o == "eio") { errno = EIO; return -1; }
  if (o == "eagain") { errno = EAGAIN; return -1; }
  if (o == "eperm") { errno = EPERM; return -1; }
  if (o == "einval") { errno = EINVAL; return -1; }
  if (o == "efault") { errno = EFAULT; return -1; }
  if (o == "ebadf") { errno = EBADF; return -1; }
  if (o == "short0") o = "short:0";
  if (o == "shortmax") o = "short:" + std::to_string(n ? n - 1 : 0);
  if (o.compare(0, 6, "short:") == 0) {
    if (all_or_nothing) { errno = EIO; return -1; }     // getentropy cannot come up short
    size_t k = (size_t)atoi(o.c_str() + 6); if (k >= n) k = n ? n - 1 : 0;
    partial_fill(buf, k, src);
    return (long)k;
  }
  errno = EIO; return -1;
}

extern "C" {
int sim_getentropy(void *buf, size_t n) { return serve("getentropy", buf, n, true) == (long)n ? 0 : -1; }
ssize_t sim_getrandom(void *buf, size_t n, unsigned) { return serve("getrandom", buf, n, false); }
long sim_syscall(long nr, ...) {
  va_list ap; va_start(ap, nr);
  void *buf = va_arg(ap, void *); size_t n = va_arg(ap, size_t);
  va_end(ap);
#ifdef SYS_getrandom
  if (nr == SYS_getrandom) return serve("sys_getrandom", buf, n, false);
#endif
  (void)buf; (void)n;
  g_rngdev.calls["sys_other"]++;
  errno = ENOSYS; return -1;
}
int sim_open(const char *path, int flags, ...) {
  (void)flags;
  co_yield_point("open");
  g_rngdev.calls["open"]++;
  MemLayer::get().stats["src_open"]++;
  std::string o = next_outcome("open");
  if (strcmp(path, "/dev/urandom")) { errno = ENOENT; return -1; }
  if (o != "ok") {
    g_rngdev.failed_sources.insert("urandom");
    g_rngdev.fired_in_op[cur_task()]++;
    MemLayer::get().stats["inj_open_" + o]++;
    ev("entropy-fault src=open outcome=" + o);
    errno = o == "emfile" ? EMFILE : o == "eacces" ? EACCES : o == "eintr" ? EINTR : o == "enfile" ? ENFILE : o == "enomem" ? ENOMEM : ENOENT; return -1;
  }
  // lowest free descriptor from the run's base on, as a kernel would hand it out (base 0: the application closed stdin)
  int fd = g_rngdev.fd_base; while (g_rngdev.open_fds.count(fd)) fd++;
  g_rngdev.next_fd++;
  g_rngdev.open_fds[fd] = cur_task();
  ev(vfmt("open /dev/urandom -> fd%d", fd - g_rngdev.fd_base));
  return fd;
}
int sim_open64(const char *path, int flags, ...) { return sim_open(path, flags); }
ssize_t sim_read(int fd, void *buf, size_t n) {
  if (!g_rngdev.open_fds.count(fd)) { errno = EBADF; return -1; }
  long r = serve("read", buf, n, false);
  if (r != (long)n) g_rngdev.failed_sources.insert("urandom");
  return r;
}
int sim_close(int fd) {
  if (!g_rngdev.open_fds.count(fd)) { errno = EBADF; return -1; }
  g_rngdev.open_fds.erase(fd);
  ev(vfmt("close fd%d", fd - g_rngdev.fd_base));
  co_yield_point("close");
  std::string o = next_outcome("close");
  if (o != "ok") {   // as on Linux: the descriptor is gone whatever close() reports
    g_rngdev.fired_in_op[cur_task()]++;
    g_rngdev.failed_sources.insert("urandom");   // a tree may count a failed close against the source (fail-closed: fine)
    MemLayer::get().stats["inj_close_" + o]++;
    ev("entropy-fault src=close outcome=" + o);
    errno = o == "eintr" ? EINTR : EIO; return -1;
  }
  return 0;
}
}
#endif
